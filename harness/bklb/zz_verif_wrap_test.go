//go:build verif

package main

import (
	"encoding/json"
	"os"
	"testing"
)

// TestVerifWrapChild runs the real main in this (child) process.
func TestVerifWrapChild(t *testing.T) {
	if os.Getenv("VERIF_WRAP_ARGV0") == "" {
		t.Skip("not a wrapper child")
	}
	var args []string
	json.Unmarshal([]byte(os.Getenv("VERIF_WRAP_ARGS")), &args)
	os.Args = append([]string{os.Getenv("VERIF_WRAP_ARGV0")}, args...)
	main()
}
