//go:build verif

package main

func init() {
	vRegister("HarnessC20_main", HarnessC20_main)
}

// HarnessC20_main: cmd/bklb's main derives the wrapped program from the name
// it was started under: "<tool>b" (through a symlink, in any directory) runs
// <tool> - exactly one trailing "b" is removed - with the arguments handed to
// the wrapper unchanged; a name that does not end in "b" runs nothing and
// exits non-zero.
func HarnessC20_main() {
	vfsReset()
	vfsAddFile("a.yaml", map[string]any{"x": 1})
	tool := ndStr(3, "set:abk-_.")
	dir := []string{"", "/usr/local/bin/", "./", "x.b/"}[ndChoice(4)]
	suffix := ndChoice(2) == 1
	name := tool
	if suffix {
		name = tool + "b"
	}
	vAssume(name != "")
	vAssume(vNoByte(tool, '/'))
	endsB := len(name) > 0 && name[len(name)-1] == 'b'
	want := name
	if endsB {
		want = name[:len(name)-1]
	}
	// names no symlink can have natively
	vAssume(vAnd(want != ".", want != ".."))
	vAssume(vAnd(name != ".", name != ".."))
	args := []string{"-f", "plain.txt"}
	if ndChoice(2) == 1 {
		args = []string{"a.yaml"}
	}
	code, argv, _ := vRunMain(dir+name, want, args...)
	vObserve("name", name)
	vObserve("code", code)
	if !endsB {
		vAssert("C20.main.usage", code != -1 && code != 0)
		vCover("main.usage")
		return
	}
	if want == "" {
		// started as plain "b": there is no program name left
		vAssert("C20.main.empty", code != 0)
		vCover("main.empty")
		return
	}
	vAssert("C20.main.exec", code == -1)
	vAssert("C20.main.argv0", len(argv) == len(args)+1 && argv[0] == want)
	if args[0] == "-f" {
		vAssert("C20.main.passthrough", argv[1] == "-f" && argv[2] == "plain.txt")
	} else {
		vAssert("C20.main.replaced", argv[1] != "a.yaml")
	}
	vCover("main.exec")
}
