//go:build verif

package main

import (
	"encoding/json"
	"fmt"
	"os"
	"os/exec"
	"path/filepath"
	"strings"
)

// Native side of vRunMain (the engine intercepts the function). The real
// wrapper ends in syscall.Exec or os.Exit, so it runs in a child process: the
// test binary re-executes itself (TestVerifWrapChild), with PATH pointing at
// a directory where <cmd> is a symlink to the test binary again; started
// under that name the binary acts as a recorder (init below) and prints the
// argv it received and the contents of the files named in it.

type vRecorded struct {
	Argv     []string `json:"argv"`
	Contents []string `json:"contents"`
}

func init() {
	if os.Getenv("VERIF_RECORDER") == "1" && filepath.Base(os.Args[0]) == os.Getenv("VERIF_WRAP_CMD") && !strings.HasSuffix(os.Args[0], ".test") {
		rec := vRecorded{Argv: os.Args}
		for _, a := range os.Args {
			c := ""
			if strings.HasPrefix(a, os.TempDir()) && strings.Contains(filepath.Base(a), "bklb.") {
				if b, err := os.ReadFile(a); err == nil {
					c = string(b)
				}
			}
			rec.Contents = append(rec.Contents, c)
		}
		b, _ := json.Marshal(rec)
		fmt.Printf("VREC %s\n", b)
		os.Exit(0)
	}
}

// vRunMain starts cmd/bklb's main under the name argv0 with <cmd> (the program
// the harness expects main to derive) present on PATH.
func vRunMain(argv0 string, cmd string, args ...string) (int, []string, []string) {
	found := cmd != ""
	bin, err := os.MkdirTemp("", "bklsym-bin-")
	if err != nil {
		panic(err)
	}
	defer os.RemoveAll(bin)
	self, _ := os.Executable()
	if found {
		if err := os.Symlink(self, filepath.Join(bin, cmd)); err != nil {
			panic(err)
		}
	}
	aj, _ := json.Marshal(args)
	c := exec.Command(self, "-test.run", "^TestVerifWrapChild$")
	c.Env = append(os.Environ(), "PATH="+bin, "VERIF_WRAP_CMD="+cmd, "VERIF_WRAP_ARGS="+string(aj), "VERIF_WRAP_ARGV0="+argv0, "VERIF_RECORDER=1", "VERIF_REPLAY=")
	out, err := c.Output()
	code := 0
	if ee, ok := err.(*exec.ExitError); ok {
		code = ee.ExitCode()
	}
	for _, line := range strings.Split(string(out), "\n") {
		if strings.HasPrefix(line, "VREC ") {
			var rec vRecorded
			if json.Unmarshal([]byte(line[5:]), &rec) == nil {
				return -1, rec.Argv, rec.Contents
			}
		}
	}
	return code, nil, nil
}
