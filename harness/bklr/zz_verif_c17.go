//go:build verif

package main

import (
	"errors"

	"github.com/gopatchy/bkl"
)

func init() {
	vRegister("HarnessC17_required", HarnessC17_required)
	vRegister("HarnessC17_layers", HarnessC17_layers)
	vRegister("HarnessC17_reread", HarnessC17_reread)
	vRegister("HarnessC17_listmarkers", HarnessC17_listmarkers)
	vRegister("HarnessC17_nested", HarnessC17_nested)
}

var keysAB = []string{"a", "b"}

// specReq: the $required skeleton (DESIGN.md B.4). nil = nothing required.
func specReq(t any) any {
	switch x := t.(type) {
	case string:
		if x == "$required" {
			return x
		}
		return nil
	case map[string]any:
		r := map[string]any{}
		for k, v := range x {
			if rv := specReq(v); rv != nil {
				r[k] = rv
			}
		}
		if len(r) == 0 {
			return nil
		}
		return r
	case []any:
		r := []any{}
		for _, v := range x {
			if rv := specReq(v); rv != nil {
				r = append(r, rv)
			}
		}
		if len(r) == 0 {
			return nil
		}
		return r
	}
	return nil
}

// reqLeaf: a marker, any scalar, or a 9-byte string that the solver may or
// may not make equal to the marker (and that is $-free otherwise).
var symLeafUsed bool

func reqLeaf() any {
	switch ndChoice(3) {
	case 0:
		return "$required"
	case 1:
		if symLeafUsed {
			return "s1"
		}
		symLeafUsed = true
		s := ndStrN(9, "print")
		vAssume(vOr(s == "$required", vNoByte(s, '$')))
		return s
	default:
		if vTier() > 0 {
			// depth 3: the non-marker, non-string leaf is a fixed int
			// (required() only asks whether a leaf is the marker string;
			// plain strings come from the branch above)
			return 7
		}
		return ndScalar()
	}
}

func c17Check(tree any, tag string) {
	want := specReq(tree)
	got, err := required(vCopy(tree))
	vAssert("C17.noerror"+tag, err == nil)
	if want == nil {
		vCover("req.empty")
	} else {
		vCover("req.nonempty")
	}
	vAssert("C17.skeleton"+tag, vEq(got, want))
	// running it on its own output changes nothing
	got2, err2 := required(vCopy(got))
	vAssert("C17.idempotent"+tag, err2 == nil && vEq(got2, got))
	// agreement with bkl: evaluation fails with a required-field error
	// exactly when the skeleton is non-empty
	p, _ := bkl.New()
	if p.MergeDocument(bkl.NewDocumentWithData("d", vCopy(tree))) != nil {
		vAssert("C17.merge"+tag, false)
	}
	_, oerr := p.OutputDocuments()
	refused := oerr != nil && errors.Is(oerr, bkl.ErrRequiredField)
	vAssert("C17.agree"+tag, refused == (want != nil))
	if want == nil {
		vAssert("C17.evalok"+tag, oerr == nil)
	}
}

// HarnessC17_required: single document, depth <= 2 (quick) / 3 (thorough).
func HarnessC17_required() {
	d, l := 2, 2
	if vTier() > 0 {
		d, l = 3, 1
	}
	root := ndMap(d, keysAB, l, reqLeaf)
	c17Check(root, "")
}

// ndOverride builds an upper layer that overrides some leaves of base with
// plain scalars (so some markers are satisfied and some are not).
func ndOverride(base any) (any, bool) {
	switch x := base.(type) {
	case map[string]any:
		r := map[string]any{}
		for _, k := range keysAB {
			v, ok := x[k]
			if !ok {
				continue
			}
			if ov, touched := ndOverride(v); touched {
				r[k] = ov
			}
		}
		return r, len(r) > 0
	case []any:
		// lists: the upper layer appends one value (which also strips
		// $required string entries of the base list) or leaves it alone
		if ndChoice(2) == 1 {
			return []any{ndScalarNN()}, true
		}
		return nil, false
	case string:
		if ndChoice(2) == 1 {
			return 7, true // an int, which no base leaf equals
		}
		return nil, false
	}
	return nil, false
}

// HarnessC17_layers: two layers; the upper one satisfies some markers.
func HarnessC17_layers() {
	base := ndMap(2, keysAB, 1, func() any {
		if ndChoice(2) == 0 {
			return "$required"
		}
		return "s0"
	})
	upper, touched := ndOverride(base)
	p, _ := bkl.New()
	bd := bkl.NewDocumentWithData("base", vCopy(base))
	if p.MergeDocument(bd) != nil {
		vAssert("C17.mergebase", false)
	}
	if touched {
		ud := bkl.NewDocumentWithData("upper", vCopy(upper))
		ud.AddParents(bd)
		if p.MergeDocument(ud) != nil {
			vAssert("C17.mergeupper", false)
		}
		vCover("layers.overridden")
	}
	docs := p.Documents()
	vAssert("C17.onedoc", len(docs) == 1)
	c17Check(docs[0].Data, ".layered")
}

// HarnessC17_listmarkers: a lower-layer list with up to three entries, any
// subset of them markers; an upper layer that supplies a list there satisfies
// ALL of them: the layered document holds the base's other entries followed
// by the upper layer's, bklr reports nothing for that list, bkl accepts.
func HarnessC17_listmarkers() {
	n := 1 + ndChoice(3)
	l := []any{}
	kept := []any{}
	for i := 0; i < n; i++ {
		if ndChoice(2) == 0 {
			l = append(l, "$required")
		} else {
			e := "s" + string(rune('0'+i))
			l = append(l, e)
			kept = append(kept, e)
		}
	}
	nested := ndChoice(2) == 1
	var base, upper, want map[string]any
	if nested {
		base = map[string]any{"a": map[string]any{"l": l}, "k": "s0"}
		upper = map[string]any{"a": map[string]any{"l": []any{"x"}}}
		want = map[string]any{"a": map[string]any{"l": append(kept, "x")}, "k": "s0"}
	} else {
		base = map[string]any{"l": l, "k": "s0"}
		upper = map[string]any{"l": []any{"x"}}
		want = map[string]any{"l": append(kept, "x"), "k": "s0"}
	}
	vObserve("base", base)
	p, _ := bkl.New()
	bd := bkl.NewDocumentWithData("base", vCopy(base))
	ud := bkl.NewDocumentWithData("upper", vCopy(upper))
	ud.AddParents(bd)
	vAssert("C17.listmarkers.merge", p.MergeDocument(bd) == nil && p.MergeDocument(ud) == nil)
	docs := p.Documents()
	vAssert("C17.listmarkers.onedoc", len(docs) == 1)
	vObserve("layered", docs[0].Data)
	vAssert("C17.listmarkers.satisfied", vEq(docs[0].Data, want))
	c17Check(docs[0].Data, ".listmarkers")
	vCover("listmarkers.checked")
}

// HarnessC17_reread: bklr's output, written in any output format and read
// back the way bklr reads its input, is exactly one document again, and
// running bklr on it changes nothing - also when the output is EMPTY (no
// marker left). Concrete trees: the stream codecs are the engine's native
// boundary (real functions on concrete data).
func HarnessC17_reread() {
	leaf := func() any {
		if ndChoice(2) == 0 {
			return "$required"
		}
		return "s1"
	}
	root := map[string]any{}
	if ndChoice(2) == 1 {
		root["a"] = leaf()
	}
	switch ndChoice(3) {
	case 1:
		root["m"] = map[string]any{"b": leaf()}
	case 2:
		root["l"] = []any{leaf(), "x"}
	}
	name := []string{"yaml", "json", "toml", "json-pretty"}[ndChoice(4)]
	got, err := required(vCopy(root))
	vAssert("C17.reread.noerror", err == nil)
	if name == "toml" && got == nil {
		// TOML cannot write a document that is not a table
		vCover("reread.checked")
		return
	}
	f, ferr := bkl.GetFormat(name)
	vAssert("C17.reread.format", ferr == nil)
	text, merr := f.MarshalStream([]any{got})
	vAssert("C17.reread.encode", merr == nil)
	docs, uerr := f.UnmarshalStream(text)
	vAssert("C17.reread.decode", uerr == nil)
	vObserve("root", root)
	vObserve("ndocs", len(docs))
	vAssert("C17.reread.onedoc", len(docs) == 1)
	again, err2 := required(docs[0])
	vAssert("C17.reread.idempotent", err2 == nil && vEq(again, got))
	vCover("reread.checked")
}

// HarnessC17_nested: a chain of four nested containers, each a map or a list
// (so also lists directly inside lists), with marker / non-marker leaves
// beside the chain and at its end.
func HarnessC17_nested() {
	leaf := func() any {
		if ndChoice(2) == 0 {
			return "$required"
		}
		return "s1"
	}
	var build func(level int) any
	build = func(level int) any {
		if level == 4 {
			return leaf()
		}
		if ndChoice(2) == 0 {
			return map[string]any{"a": build(level + 1), "b": leaf()}
		}
		return []any{build(level + 1), leaf()}
	}
	root := map[string]any{"r": build(1), "k": leaf()}
	c17Check(root, ".nested")
}
