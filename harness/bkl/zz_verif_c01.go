//go:build verif

package bkl

func init() {
	vRegister("HarnessC01_match", HarnessC01_match)
}

var keysAB = []string{"a", "b"}

// specMatch: the documented subset-pattern semantics (DESIGN.md B.1).
func specMatch(x, pat any) bool {
	switch p := pat.(type) {
	case map[string]any:
		if inv, ok := p["$invert"]; ok && inv == true {
			rest := map[string]any{}
			for k, v := range p {
				if k != "$invert" {
					rest[k] = v
				}
			}
			return !specMatch(x, rest)
		}
		xm, ok := x.(map[string]any)
		if !ok {
			return false
		}
		if len(xm) == 1 {
			for k := range xm {
				if k == "$merge" || k == "$replace" || k == "$encode" {
					return false
				}
			}
		}
		for k, pv := range p {
			if !specMatch(xm[k], pv) {
				return false
			}
		}
		return true
	case []any:
		xl, ok := x.([]any)
		if !ok {
			return false
		}
		for _, pv := range p {
			found := false
			for _, xv := range xl {
				if specMatch(xv, pv) {
					found = true
					break
				}
			}
			if !found {
				return false
			}
		}
		return true
	default:
		return x == pat
	}
}

// ndPattern: scalar, map over keysAB (optionally inverted), or short list.
func ndPattern(d int) any {
	if d <= 0 {
		return ndScalar()
	}
	switch ndChoice(3) {
	case 0:
		return ndScalar()
	case 1:
		m := map[string]any{}
		for _, k := range keysAB {
			if ndChoice(2) == 1 {
				m[k] = ndPattern(d - 1)
			}
		}
		if ndChoice(2) == 1 {
			m["$invert"] = true
		}
		return m
	default:
		n := ndChoice(3)
		l := []any{}
		for i := 0; i < n; i++ {
			l = append(l, ndPattern(d-1))
		}
		return l
	}
}

// HarnessC01_match: match(obj, pat) agrees with the documented pattern
// semantics for every object/pattern of depth <= 2 (quick: pattern depth 1).
func HarnessC01_match() {
	c01Tokens()
	pd := 1
	if vTier() > 0 {
		pd = 2
	}
	obj := ndTree(2, keysAB, 2, ndScalar)
	pat := ndPattern(pd)
	want := specMatch(obj, pat)
	got := match(vCopy(obj), vCopy(pat))
	if got {
		vCover("match.true")
	} else {
		vCover("match.false")
	}
	vAssert("C01.match", got == want)
}

// ---------------------------------------------------------------------------
// specMerge: the documented layer-merge rules as a pure functional model
// (DESIGN.md B.1). ok=false means "rejected".

func specIsDirectiveString(s string) bool {
	if s == "$required" {
		return true
	}
	return len(s) >= 2 && s[0] == '$' && s[1] >= 'a' && s[1] <= 'z'
}

// specNoStray: no key or string in t is $required or "$"+lowercase...
// (strings in the merge harnesses are ASCII, so the byte test is exact).
func specNoStray(t any) bool {
	switch x := t.(type) {
	case map[string]any:
		for k, v := range x {
			if specIsDirectiveString(k) || !specNoStray(v) {
				return false
			}
		}
		return true
	case []any:
		for _, v := range x {
			if !specNoStray(v) {
				return false
			}
		}
		return true
	case string:
		return !specIsDirectiveString(x)
	}
	return true
}

func specWithout(m map[string]any, drop string) map[string]any {
	r := map[string]any{}
	for k, v := range m {
		if k != drop {
			r[k] = vCopy(v)
		}
	}
	return r
}

func specMerge(p, c any) (any, bool) {
	switch pp := p.(type) {
	case map[string]any:
		cm, isMap := c.(map[string]any)
		if !isMap {
			if len(pp) == 0 {
				return vCopy(c), true
			}
			return nil, false
		}
		if rv, ok := cm["$replace"]; ok && rv == true {
			return specWithout(cm, "$replace"), true
		}
		r := map[string]any{}
		for k, v := range pp {
			r[k] = vCopy(v)
		}
		for k, v := range cm {
			pv, has := pp[k]
			if s, isStr := v.(string); isStr && s == "$delete" {
				if !has {
					return nil, false
				}
				delete(r, k)
				continue
			}
			if has {
				mv, ok := specMerge(pv, v)
				if !ok {
					return nil, false
				}
				r[k] = mv
			} else {
				r[k] = vCopy(v)
			}
		}
		return r, true

	case []any:
		cl, isList := c.([]any)
		if !isList {
			return nil, false
		}
		// "$replace" string entries
		hasStr := false
		for _, e := range cl {
			if s, ok := e.(string); ok && s == "$replace" {
				hasStr = true
			}
		}
		if hasStr {
			r := []any{}
			for _, e := range cl {
				if s, ok := e.(string); ok && s == "$replace" {
					continue
				}
				r = append(r, vCopy(e))
			}
			return r, true
		}
		// {$replace: true} entries
		hasMap := false
		for _, e := range cl {
			if em, ok := e.(map[string]any); ok {
				if rv, ok := em["$replace"]; ok && rv == true {
					hasMap = true
				}
			}
		}
		if hasMap {
			r := []any{}
			for _, e := range cl {
				if em, ok := e.(map[string]any); ok {
					if rv, ok := em["$replace"]; ok && rv == true {
						if len(em) > 1 {
							return nil, false
						}
						continue
					}
				}
				r = append(r, vCopy(e))
			}
			return r, true
		}
		r := []any{}
		for _, e := range pp {
			if s, ok := e.(string); ok && s == "$required" {
				continue
			}
			r = append(r, vCopy(e))
		}
		for _, e := range cl {
			em, isMap := e.(map[string]any)
			if !isMap {
				r = append(r, vCopy(e))
				continue
			}
			if del, ok := em["$delete"]; ok {
				if len(em) > 1 {
					return nil, false
				}
				hit := false
				nr := []any{}
				for _, x := range r {
					if specMatch(x, del) {
						hit = true
						continue
					}
					nr = append(nr, x)
				}
				if !hit {
					return nil, false
				}
				r = nr
				continue
			}
			if pat, ok := em["$match"]; ok {
				var val any
				if v, ok := em["$value"]; ok {
					if len(em) > 2 {
						return nil, false
					}
					val = v
				} else {
					val = specWithout(em, "$match")
				}
				hit := false
				nr := []any{}
				for _, x := range r {
					if specMatch(x, pat) {
						hit = true
						mv, ok := specMerge(x, val)
						if !ok {
							return nil, false
						}
						nr = append(nr, mv)
					} else {
						nr = append(nr, x)
					}
				}
				if !hit {
					return nil, false
				}
				r = nr
				continue
			}
			r = append(r, vCopy(e))
		}
		return r, true

	case nil:
		return vCopy(c), true

	default:
		if c == p {
			return nil, false
		}
		return vCopy(c), true
	}
}

// ---- generators ----

func ndParentLeaf() any {
	if ndChoice(4) == 0 {
		return "$required"
	}
	return ndScalar()
}

// ndListPattern: patterns used by list $match / $delete entries.
func ndListPattern() any {
	switch ndChoice(5) {
	case 0:
		return ndScalarNN()
	case 1:
		return map[string]any{}
	case 2:
		return map[string]any{"a": ndScalarNN()}
	case 3:
		return map[string]any{"a": ndScalarNN(), "$invert": true}
	default:
		return []any{ndScalarNN()}
	}
}

// ndChildListEntry: one entry of a child list, directive entries included,
// also malformed ones (extra keys).
func ndChildListEntry(menu []int) any {
	c := ndChoice(len(menu))
	switch menu[c] {
	case 0:
		return ndScalarNN()
	case 1:
		return "$replace"
	case 2:
		return map[string]any{"$replace": true}
	case 3:
		return map[string]any{"$replace": true, "a": ndScalarNN()}
	case 4:
		return map[string]any{"$delete": ndListPattern()}
	case 5:
		return map[string]any{"$delete": ndListPattern(), "a": ndScalarNN()}
	case 6:
		return map[string]any{"$match": ndListPattern(), "b": ndScalarNN()}
	case 7:
		return map[string]any{"$match": ndListPattern(), "$value": ndScalarNN()}
	case 8:
		return map[string]any{"$match": ndListPattern(), "$value": ndScalarNN(), "a": ndScalarNN()}
	case 9:
		return map[string]any{"a": ndScalarNN()}
	case 11:
		return "$required" // a marker appended by the child stays in the result
	default:
		return "$delete" // misplaced: a bare string entry
	}
}

var fullMenu = []int{0, 1, 2, 3, 4, 5, 6, 7, 8, 9, 10, 11}

// matchMenu: the entry forms that edit existing entries (the interplay of
// two such entries is where aliasing defects show).
var matchMenu = []int{0, 4, 6, 7}

func ndChildList(maxLen int) []any {
	return ndChildListMenu(maxLen, fullMenu)
}

func ndChildListMenu(maxLen int, menu []int) []any {
	n := ndChoice(maxLen + 1)
	l := []any{}
	for i := 0; i < n; i++ {
		l = append(l, ndChildListEntry(menu))
	}
	return l
}

// ndChildValue: a child-side value of depth <= d.
func ndChildValue(d int, maxList int) any {
	if d <= 0 {
		return ndScalarNN()
	}
	switch ndChoice(3) {
	case 0:
		return ndScalarNN()
	case 1:
		return ndChildMap(d, maxList)
	default:
		return ndChildList(maxList)
	}
}

func ndChildMap(d int, maxList int) map[string]any {
	m := map[string]any{}
	for _, k := range keysAB {
		switch ndChoice(4) {
		case 0:
		case 1:
			m[k] = ndScalarNN()
		case 2:
			m[k] = "$delete"
		default:
			m[k] = ndChildValue(d-1, maxList)
		}
	}
	switch ndChoice(4) {
	case 1:
		m["$replace"] = true
	case 2:
		m["$replace"] = false // misplaced: not the boolean true
	case 3:
		m["$match"] = map[string]any{} // misplaced: list/document directive as a map key
	}
	return m
}

// c01Tokens: string leaves include texts that print like an int / a bool
// ("1" is not 1, "true" is not true).
func c01Tokens() { vSetTokens("s0", "1", "true", "s3") }

func c01Check(parent, child any) {
	vObserve("parent", parent)
	vObserve("child", child)
	want, wantOK := specMerge(parent, child)
	if wantOK && !specNoStray(want) {
		wantOK = false
	}
	got, err := merge(vCopy(parent), vCopy(child))
	if err == nil {
		err = validate(got)
	}
	if err != nil {
		vCover("merge.rejected")
	} else {
		vCover("merge.accepted")
	}
	vObserve("wantOK", wantOK)
	vObserve("accepted", err == nil)
	vAssert("C01.reject", (err == nil) == wantOK)
	if err == nil {
		vAssert("C01.result", vEq(got, want))
	}
}

// HarnessC01_mapmap: map over map, values of depth <= 1 on both sides.
func HarnessC01_mapmap() {
	c01Tokens()
	if vTier() == 0 {
		// quick: scalar values on the parent side, child values of depth <= 1
		parent := ndMap(1, keysAB, 0, ndParentLeaf)
		child := ndChildMap(1, 0)
		c01Check(parent, child)
		return
	}
	// thorough: a parent of depth <= 2 (maps in maps) under the full
	// depth-1 child family; deeper children are HarnessC01_spine's subject,
	// lists and their directive entry forms HarnessC01_listlist/listpair's
	parent := ndMap(2, keysAB, 0, ndParentLeaf)
	child := ndChildMap(1, 0)
	c01Check(parent, child)
}

// HarnessC01_spine: a map two levels deep with one key per level below the
// first; the child edits at the bottom (recursion into a key depends only on
// that key's two values).
func HarnessC01_spine() {
	c01Tokens()
	inner := ndMap(1, keysAB, 1, ndParentLeaf)
	parent := map[string]any{"a": map[string]any{"b": inner}, "b": ndParentLeaf()}
	cinner := ndChildMap(1, 1)
	child := map[string]any{"a": map[string]any{"b": cinner}}
	c01Check(parent, child)
}

// HarnessC01_listlist: list over list with every directive entry form.
func HarnessC01_listlist() {
	c01Tokens()
	pl := 2
	cl := 1
	if vTier() > 0 {
		cl = 2
	}
	c01ListList(pl, func() []any { return ndChildList(cl) })
}

// HarnessC01_listpair: two editing entries ($match / $value / $delete /
// append) applied in sequence to a parent list of <= 2 entries.
func HarnessC01_listpair() {
	c01Tokens()
	if vTier() == 0 {
		// quick: two $match entries over exactly two parent entries
		parent := []any{}
		for i := 0; i < 2; i++ {
			if ndChoice(2) == 0 {
				parent = append(parent, ndScalarNN())
			} else {
				parent = append(parent, map[string]any{"a": ndScalarNN()})
			}
		}
		pat := func() any {
			switch ndChoice(3) {
			case 0:
				return map[string]any{}
			case 1:
				return map[string]any{"a": ndScalarNN()}
			default:
				return map[string]any{"a": ndScalarNN(), "$invert": true}
			}
		}
		child := []any{
			map[string]any{"$match": pat(), "b": ndScalarNN()},
			map[string]any{"$match": pat(), "b": ndScalarNN()},
		}
		c01Check(parent, child)
		return
	}
	c01ListList(2, func() []any {
		return []any{ndChildListEntry(matchMenu), ndChildListEntry(matchMenu)}
	})
}

func c01ListList(pl int, mkChild func() []any) {
	parent := []any{}
	n := ndChoice(pl + 1)
	for i := 0; i < n; i++ {
		switch ndChoice(4) {
		case 0:
			parent = append(parent, ndScalar())
		case 1:
			parent = append(parent, "$required")
		case 2:
			parent = append(parent, map[string]any{"a": ndScalar()})
		default:
			parent = append(parent, map[string]any{"a": ndScalar(), "b": ndScalar()})
		}
	}
	child := mkChild()
	c01Check(parent, child)
}

// HarnessC01_kinds: the kind matrix {nil, scalar, {}, map, [], list}^2.
func HarnessC01_kinds() {
	c01Tokens()
	gen := func(child bool) any {
		sc := ndScalar
		if child {
			sc = ndScalarNN
		}
		switch ndChoice(6) {
		case 0:
			if child {
				return sc()
			}
			return nil
		case 1:
			return sc()
		case 2:
			return map[string]any{}
		case 3:
			return map[string]any{"a": sc()}
		case 4:
			return []any{}
		default:
			return []any{sc()}
		}
	}
	parent := gen(false)
	child := gen(true)
	c01Check(parent, child)
}

func init() {
	vRegister("HarnessC01_mapmap", HarnessC01_mapmap)
	vRegister("HarnessC01_listlist", HarnessC01_listlist)
	vRegister("HarnessC01_kinds", HarnessC01_kinds)
	vRegister("HarnessC01_spine", HarnessC01_spine)
	vRegister("HarnessC01_listpair", HarnessC01_listpair)
}
