//go:build verif

package bkl

func init() {
	vRegister("HarnessC01_match", HarnessC01_match)
}

var keysAB = []string{"a", "b"}

// specMatch: the documented subset-pattern semantics (DESIGN.md B.1).
func specMatch(x, pat any) bool {
	switch p := pat.(type) {
	case map[string]any:
		if inv, ok := p["$invert"]; ok && inv == true {
			rest := map[string]any{}
			for k, v := range p {
				if k != "$invert" {
					rest[k] = v
				}
			}
			return !specMatch(x, rest)
		}
		xm, ok := x.(map[string]any)
		if !ok {
			return false
		}
		if len(xm) == 1 {
			for k := range xm {
				if k == "$merge" || k == "$replace" || k == "$encode" {
					return false
				}
			}
		}
		for k, pv := range p {
			if !specMatch(xm[k], pv) {
				return false
			}
		}
		return true
	case []any:
		xl, ok := x.([]any)
		if !ok {
			return false
		}
		for _, pv := range p {
			found := false
			for _, xv := range xl {
				if specMatch(xv, pv) {
					found = true
					break
				}
			}
			if !found {
				return false
			}
		}
		return true
	default:
		return x == pat
	}
}

// ndPattern: scalar, map over keysAB (optionally inverted), or short list.
func ndPattern(d int) any {
	if d <= 0 {
		return ndScalar()
	}
	switch ndChoice(3) {
	case 0:
		return ndScalar()
	case 1:
		m := map[string]any{}
		for _, k := range keysAB {
			if ndChoice(2) == 1 {
				m[k] = ndPattern(d - 1)
			}
		}
		if ndChoice(2) == 1 {
			m["$invert"] = true
		}
		return m
	default:
		n := ndChoice(3)
		l := []any{}
		for i := 0; i < n; i++ {
			l = append(l, ndPattern(d-1))
		}
		return l
	}
}

// HarnessC01_match: match(obj, pat) agrees with the documented pattern
// semantics for every object/pattern of depth <= 2 (quick: pattern depth 1).
func HarnessC01_match() {
	pd := 1
	if vTier() > 0 {
		pd = 2
	}
	obj := ndTree(2, keysAB, 2, ndScalar)
	pat := ndPattern(pd)
	want := specMatch(obj, pat)
	got := match(vCopy(obj), vCopy(pat))
	if got {
		vCover("match.true")
	} else {
		vCover("match.false")
	}
	vAssert("C01.match", got == want)
}
