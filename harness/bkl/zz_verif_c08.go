//go:build verif

package bkl

func init() {
	vRegister("HarnessC08_fuzz", HarnessC08_fuzz)
	vRegister("HarnessC08_refs", HarnessC08_refs)
	vRegister("HarnessC08_interp", HarnessC08_interp)
	vRegister("HarnessC08_strings", HarnessC08_strings)
	vRegister("HarnessC08_witness", HarnessC08_witness)
}

var c08Keys = []string{"a", "b", "$merge", "$replace", "$encode", "$decode", "$value", "$repeat", "$output", "$match", "$path", "$merge:a", `$"{a}"`, "$env:X", "$delete", "$required", "$invert"}

var c08Strings = []string{"a", "a.b", "b", "$merge:a", "$replace:b", `$"{a}"`, `$"{b}"`, "$repeat", "$required", "$delete", "json", "flags", "join:,", "$env:X", "[a]", "{}"}

// c08Scalar: any scalar; integers are kept in [-2,5] so that a $repeat count
// cannot stand for a legitimately huge output.
func c08Scalar() any {
	v := ndScalar()
	if n, ok := v.(int); ok {
		vAssume(vAnd(n >= -2, n <= 5))
	}
	return v
}

func c08Value(d int) any {
	n := 4
	if d > 0 {
		n = 7
	}
	switch ndChoice(n) {
	case 0:
		return c08Scalar()
	case 1:
		return c08Strings[ndChoice(len(c08Strings))]
	case 2:
		return []any{}
	case 3:
		return map[string]any{}
	case 4:
		return []any{c08Value(d - 1)}
	case 5:
		return map[string]any{c08Keys[ndChoice(len(c08Keys))]: c08Value(d - 1)}
	default:
		return []any{c08Value(0), c08Value(0)}
	}
}

var c08Dirs = []string{"$merge", "$replace", "$encode", "$decode", "$value", "$repeat", "$output", "$match", "$path", "$delete", "$required", "$invert", "$parent"}

// c08Arg: an argument of arbitrary kind.
func c08Arg() any {
	switch ndChoice(9) {
	case 0:
		return c08Scalar()
	case 1:
		return c08Strings[ndChoice(len(c08Strings))]
	case 2:
		return []any{}
	case 3:
		return map[string]any{}
	case 4:
		return []any{c08Scalar()}
	case 5:
		return []any{c08Strings[ndChoice(len(c08Strings))]}
	case 6:
		return map[string]any{"a": c08Scalar()}
	case 7:
		return []any{map[string]any{"a": 1}, "x"}
	default:
		return map[string]any{"$match": map[string]any{}, "$path": "a"}
	}
}

// c08Place puts {dir: arg} at one of six positions of a small document.
func c08Place(dir string, arg any) any {
	base := map[string]any{"a": map[string]any{"x": 1}, "b": "s0"}
	switch ndChoice(7) {
	case 6:
		// the host sits under the key it also contains: {"a": {"a": 1, dir: arg}}
		base["a"] = map[string]any{dir: arg, "a": 1}
	case 0:
		base[dir] = arg
	case 1:
		base["h"] = map[string]any{dir: arg}
	case 2:
		base["h"] = map[string]any{dir: arg, "a": 1, "y": []any{"s1"}}
	case 3:
		base["l"] = []any{map[string]any{dir: arg}}
	case 4:
		base["l"] = []any{1, map[string]any{dir: arg, "z": 1}}
	default:
		base["h"] = map[string]any{"g": map[string]any{dir: arg, "a": map[string]any{"a": 1}}}
	}
	return base
}

// HarnessC08_fuzz: every directive key with an argument of arbitrary kind at
// arbitrary positions, in a single document or as the upper of two layers,
// evaluated through to output. There is no assertion in the harness: the
// property is enforced by the engine on every path (no reachable panic, every
// path ends within its instruction and call-depth budget).
func HarnessC08_fuzz() {
	vSetEnv("X=1")
	dir := c08Dirs[ndChoice(len(c08Dirs))]
	arg := c08Arg()
	doc := c08Place(dir, arg)
	vObserve("doc", doc)
	var err error
	if ndChoice(2) == 0 {
		_, err = c06Eval(doc)
	} else {
		_, err = c06Eval(map[string]any{"a": map[string]any{"x": 2, "w": 1}, "l": []any{0}, "h": map[string]any{"q": 1}}, doc)
		vCover("fuzz.layered")
	}
	if err != nil {
		vCover("fuzz.error")
	} else {
		vCover("fuzz.output")
	}
}

// HarnessC08_strings: directive-shaped strings as values, list entries and
// keys.
func HarnessC08_strings() {
	vSetEnv("X=1")
	s := c08Strings[ndChoice(len(c08Strings))]
	s2 := c08Strings[ndChoice(len(c08Strings))]
	doc := map[string]any{"a": map[string]any{"b": 1, "c": s2}, "b": "s0"}
	switch ndChoice(5) {
	case 0:
		doc["v"] = s
	case 1:
		doc["l"] = []any{s, 1}
	case 2:
		doc[s] = c08Scalar()
	case 3:
		doc["h"] = map[string]any{s: map[string]any{"k": s2}}
	default:
		doc["h"] = map[string]any{"$value": s}
	}
	vObserve("doc", doc)
	_, err := c06Eval(doc)
	if err != nil {
		vCover("fuzz.error")
	} else {
		vCover("fuzz.output")
	}
}

// c08Ref: one reference from node host to node tgt, in one of the spellings.
// Interpolation refers to the target's own reference string (tgt.r), so that
// a cycle of interpolations is a cycle of strings. Returns the edge kind:
// 0 map-key $merge, 1 map-key $replace, 2 "$merge:" string, 3 interpolation.
func c08Ref(tgt string) (string, any, int) {
	switch ndChoice(4) {
	case 0:
		return "$merge", tgt, 0
	case 1:
		return "$replace", tgt, 1
	case 2:
		return "r", "$merge:" + tgt, 2
	default:
		return "r", `$"{` + tgt + `.r}"`, 3
	}
}

// HarnessC08_refs: reference graphs over three nodes a, b, c (each a map
// holding one reference to any node, or a leaf): cycles must end in an error;
// never a panic or a hang.
//
// Known finding C08-K2 (excluded by region, witness replayed): a cycle that
// runs through a map-key $merge (the key is deleted in place before it is
// resolved, so the loop closes on an already-emptied map and is accepted
// silently), and mixed cycles of interpolation with other reference forms.
func HarnessC08_refs() { c08Refs(true) }

func c08Refs(excludeKnown bool) {
	names := []string{"a", "b", "c"}
	doc := map[string]any{}
	edges := map[string]string{}
	kinds := map[string]int{}
	for _, n := range names {
		switch ndChoice(2) {
		case 0:
			doc[n] = map[string]any{"r": "leaf"}
		default:
			tgt := names[ndChoice(3)]
			k, v, kind := c08Ref(tgt)
			doc[n] = map[string]any{k: v}
			edges[n] = tgt
			kinds[n] = kind
		}
	}
	vObserve("doc", doc)
	cyclic := false
	known := false
	for _, n := range names {
		cur := n
		hasMerge, hasInterp, hasOther := false, false, false
		for i := 0; i < 4; i++ {
			nxt, ok := edges[cur]
			if !ok {
				break
			}
			switch kinds[cur] {
			case 0:
				hasMerge = true
			case 3:
				hasInterp = true
			default:
				hasOther = true
			}
			cur = nxt
			if cur == n {
				cyclic = true
				// cycles through a map-key $merge were known finding C08-K2a/b
				// (repaired in /repo); what remains listed is the mixed case
				if hasInterp && (hasOther || hasMerge) {
					known = true
				}
				break
			}
		}
	}
	if known && excludeKnown {
		vCover("known.C08-K2")
		vAssume(false)
	}
	_, err := c06Eval(doc)
	vObserve("err", err != nil)
	if cyclic {
		vCover("refs.cyclic")
		vAssert("C08.cycle.reported", err != nil)
	} else {
		vCover("refs.acyclic")
	}
}

// HarnessC08_interp: interpolation strings a and b with one to three
// references each, to a, b or the plain leaf x, in any combination: every
// reference cycle is reported as an error, and evaluation ends within the
// engine's instruction budget (a string with several references back into
// its own cycle must not multiply the work at every level).
func HarnessC08_interp() {
	names := []string{"a", "b", "x"}
	doc := map[string]any{"x": "ok"}
	edges := map[string][]string{}
	for _, n := range names[:2] {
		k := 1 + ndChoice(3)
		s := `$"`
		for i := 0; i < k; i++ {
			t := names[ndChoice(3)]
			edges[n] = append(edges[n], t)
			if i > 0 {
				s += "-"
			}
			s += "{" + t + "}"
		}
		doc[n] = s + `"`
	}
	vObserve("doc", doc)
	reach := func(from, to string) bool {
		seen := map[string]bool{}
		var walk func(string) bool
		walk = func(c string) bool {
			for _, t := range edges[c] {
				if t == to {
					return true
				}
				if !seen[t] {
					seen[t] = true
					if walk(t) {
						return true
					}
				}
			}
			return false
		}
		return walk(from)
	}
	cyclic := reach("a", "a") || reach("b", "b")
	_, err := c06Eval(doc)
	vObserve("err", err != nil)
	if cyclic {
		vCover("interp.cyclic")
		vAssert("C08.interp.cycle.reported", err != nil)
	} else {
		vCover("interp.acyclic")
		vAssert("C08.interp.accepted", err == nil)
	}
}

// HarnessC08_witness: concrete witnesses of the known findings.
func HarnessC08_witness() {
	switch ndChoice(4) {
	case 3: // C08-K2c: a cycle mixing "$merge:" and interpolation is accepted silently
		_, err := c06Eval(map[string]any{"b": map[string]any{"r": "$merge:c"}, "c": map[string]any{"r": `$"{b.r}"`}})
		vAssert("C08.cycle.reported", err != nil)
	case 0: // C08-K2: a subtree merged into itself is accepted silently
		_, err := c06Eval(map[string]any{"c": map[string]any{"$merge": "c"}})
		vAssert("C08.cycle.reported", err != nil)
	case 1: // C08-K2: a two-node $merge loop is accepted silently
		_, err := c06Eval(map[string]any{"a": map[string]any{"$merge": "c"}, "c": map[string]any{"$merge": "a"}})
		vAssert("C08.cycle.reported", err != nil)
	default: // C08-K1: branching self-reference exhausts memory instead of reporting a cycle
		_, err := c06Eval(map[string]any{"c": map[string]any{
			"a": map[string]any{"$merge": "c"},
			"c": map[string]any{"$merge": "c", "a": "q"},
		}})
		vAssert("C08.cycle.reported", err != nil)
	}
}
