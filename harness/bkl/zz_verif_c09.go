//go:build verif

package bkl

import (
	"fmt"
	"sync"
)

func init() {
	vRegister("HarnessC09_retain", HarnessC09_retain)
	vRegister("HarnessC09_stream", HarnessC09_stream)
	vRegister("HarnessC09_process", HarnessC09_process)
	vRegister("HarnessC09_order", HarnessC09_order)
	vRegister("HarnessC09_witness", HarnessC09_witness)
}

// c09Input: inputs of the other properties' families in which iteration
// order could matter: maps with three keys, several $output selections,
// $repeat products, map transforms, $delete next to additions, layering.
func c09Input(k int) []any {
	c1, c2 := ndScalarNN(), ndScalarNN()
	switch k {
	case 0:
		return []any{map[string]any{"a": c1, "b": c2, "c": map[string]any{"x": 1, "y": c1, "z": nil}}}
	case 1:
		return []any{map[string]any{
			"x": map[string]any{"$output": true, "a": c1},
			"y": map[string]any{"$output": true, "b": c2},
			"z": map[string]any{"$output": true, "n": map[string]any{"$output": true}},
		}}
	case 2:
		return []any{map[string]any{"$repeat": map[string]any{"x": 2, "y": 2, "w": 1}, "p": `$"{$repeat:x}{$repeat:y}{$repeat:w}"`, "c": c1}}
	case 3:
		return []any{map[string]any{
			"f": map[string]any{"$encode": "flags", "c": c1, "a": "1", "b": []any{"x", "y"}},
			"v": map[string]any{"$encode": "values", "$value": map[string]any{"c": c1, "a": 1, "b": 2}},
		}}
	case 4:
		return []any{
			map[string]any{"a": c1, "b": 2, "c": map[string]any{"k": 1}},
			map[string]any{"a": "new", "b": "$delete", "c": map[string]any{"k": "$delete", "m": c2}, "d": 4},
		}
	case 5:
		return []any{map[string]any{"t": map[string]any{"a": 1, "b": c1, "c": 3}, "h": map[string]any{"$merge": "t", "b": "old", "d": c2}, "l": []any{map[string]any{"$repeat": 2, "i": "$repeat"}}}}
	case 6:
		// keys that are evaluated; two of them collide after evaluation
		// (the interpolated key and the literal "kx"): which one wins must
		// not depend on iteration order
		return []any{map[string]any{`$"k{a}"`: 1, "a": "x", "kx": c1, "$env:HOME": 2, "/h": c2}}
	case 7:
		return []any{map[string]any{"a": "$required", "b": "$required", "c": c1}}
	case 8:
		// $replace: true next to keys an ordinary merge would reject or
		// change (equal value, kind change, $delete of a missing key)
		return []any{
			map[string]any{"svc": map[string]any{"name": c1, "port": 80, "tags": map[string]any{"t": 1}}, "o": 1},
			map[string]any{"svc": map[string]any{"$replace": true, "name": c2, "port": 80, "tags": "plain"}},
		}
	case 9:
		// several keys of one map are rejected for different reasons
		return []any{
			map[string]any{"a": c1, "b": map[string]any{"k": 1}, "c": []any{1}},
			map[string]any{"a": c2, "b": "scalar", "c": map[string]any{"k": 1}, "d": "$delete"},
		}
	case 10:
		// every directive key a map can carry, side by side with data
		return []any{map[string]any{
			"t": map[string]any{"a": 1, "b": c1},
			"x": map[string]any{"$output": true, "$merge": "u", "$encode": "json", "b": "B", "z": nil},
			"u": map[string]any{"a": 1, "b": "old"},
			"y": map[string]any{"$replace": "t", "$output": true, "a": c2},
			"l": []any{map[string]any{"$repeat": 2, "$output": true, "i": "$repeat", "c": c1}},
		}}
	case 11:
		// $match in a layer: pattern with several keys, $invert, $value
		return []any{
			map[string]any{"l": []any{map[string]any{"a": 1, "b": c1, "c": 3}, map[string]any{"a": 1, "b": 2, "c": 4}}},
			map[string]any{"l": []any{
				map[string]any{"$match": map[string]any{"a": 1, "b": c2, "c": 3}, "hit": true, "b": "$delete"},
				map[string]any{"$match": map[string]any{"a": 1, "c": 4, "$invert": true}, "$value": map[string]any{"r": c2, "a": 1}},
				map[string]any{"$delete": map[string]any{"b": 2, "c": 4}},
			}},
		}
	case 12:
		// document-level $match against two documents, plus $decode/$encode chains
		return []any{
			map[string]any{"kind": c1, "name": "n", "spec": map[string]any{"p": 1, "q": c2}},
			map[string]any{"$match": map[string]any{"kind": c1, "name": "n"}, "spec": map[string]any{"q": "$delete", "r": map[string]any{"$encode": "json", "u": "U", "v": 1}}},
		}
	default:
		// a $merge whose target lies inside its own host (was C09-K1)
		return []any{map[string]any{"$merge": "c", "c": map[string]any{"c": map[string]any{"d": c1}, "e": c2}}}
	}
}

const c09Inputs = 14

func c09Eval(layers []any) ([]any, bool) {
	cp := []any{}
	for _, l := range layers {
		cp = append(cp, vCopy(l))
	}
	outs, err := c06Eval(cp...)
	return outs, err != nil
}

// HarnessC09_order: the result under every hash-map iteration order equals
// the result of a reference run. Under the engine every `range` over a map in
// bkl's code picks its next key by a fresh choice (and keys inserted during
// the iteration may or may not be visited), so all orders are explored;
// natively the evaluation is repeated 300 times (Go randomises every range).
func HarnessC09_order() {
	vSetEnv("HOME=/h")
	k := ndChoice(c09Inputs)
	in := c09Input(k)
	vObserve("input", in)
	vOrderMode(false)
	refOuts, refErr := c09Eval(in)
	runs := 1
	if vIsNative() {
		runs = 300
	}
	for r := 0; r < runs; r++ {
		vOrderMode(true)
		outs, isErr := c09Eval(in)
		vOrderMode(false)
		vAssert("C09.status", isErr == refErr)
		if !isErr {
			vAssert("C09.output", vEq(outs, refOuts))
		}
	}
	if refErr {
		vCover("order.error")
	} else {
		vCover("order.output")
	}
}

// HarnessC09_witness: C09-K1, a $merge whose target lies inside its own host.
func HarnessC09_witness() {
	in := []any{map[string]any{"$merge": "c", "c": map[string]any{"c": map[string]any{"d": 1}, "e": 2}}}
	vOrderMode(false)
	refOuts, refErr := c09Eval(in)
	runs := 1
	if vIsNative() {
		runs = 300
	}
	for r := 0; r < runs; r++ {
		vOrderMode(true)
		outs, isErr := c09Eval(in)
		vOrderMode(false)
		vAssert("C09.status", isErr == refErr)
		if !isErr {
			vAssert("C09.output", vEq(outs, refOuts))
		}
	}
}

// HarnessC09_retain: the bytes returned for one evaluation do not depend on
// other evaluations of the same process, before, after or concurrently: a
// returned slice keeps its content while other inputs are evaluated, and the
// same input gives the same bytes again. (The stream codecs are a native
// boundary of the engine, assumed to be pure functions of their data; this
// harness is where the native replay of every path checks that assumption
// against the real build, goroutines included.)
func HarnessC09_retain() {
	f := []string{"json", "jsonl", "json-pretty", "yaml", "toml"}[ndChoice(5)]
	mk := func(i int) any {
		return map[string]any{"name": fmt.Sprintf("n%04d", i), "port": 1000 + i, "l": []any{"x", i}}
	}
	out := func(d any) []byte {
		p, _ := New()
		if p.MergeDocument(NewDocumentWithData("d", vCopy(d))) != nil {
			vAssert("C09.retain.merge", false)
		}
		b, err := p.Output(f)
		vAssert("C09.retain.accepted", err == nil)
		return b
	}
	a1 := out(mk(1)) // retained as returned, not copied
	keep := string(a1)
	b1 := out(mk(2))
	a2 := out(mk(1))
	vAssert("C09.retain.later", string(a1) == keep)
	vAssert("C09.retain.same", string(a2) == keep)
	vAssert("C09.retain.other", string(b1) != keep)
	if vIsNative() {
		var wg sync.WaitGroup
		const G, N = 8, 40
		got := make([][][]byte, G)
		for g := 0; g < G; g++ {
			got[g] = make([][]byte, N)
			wg.Add(1)
			go func(g int) {
				defer wg.Done()
				for i := 0; i < N; i++ {
					got[g][i] = out(mk(10 + g))
				}
			}(g)
		}
		wg.Wait()
		for g := 0; g < G; g++ {
			want := string(out(mk(10 + g)))
			for i := 0; i < N; i++ {
				vAssert("C09.retain.concurrent", string(got[g][i]) == want)
			}
		}
	}
	vCover("retain.checked")
}

// HarnessC09_process: evaluation is a function of its inputs and of the
// environment AT THAT TIME, not of what an earlier evaluation in the same
// process saw: between two evaluations a variable changes its value, or one
// variable is replaced by another (same number of variables), or a variable
// is added or removed; each evaluation gives what a fresh process would give.
func HarnessC09_process() {
	doc := map[string]any{"c": "$env:COLOR", "l": `$"c-{$env:COLOR}"`}
	eval := func() (any, bool) {
		outs, err := c06Eval(vCopy(doc))
		if err != nil || len(outs) != 1 {
			return nil, true
		}
		return outs[0], false
	}
	v1 := []string{"red", "green"}[ndChoice(2)]
	vSetEnv("HOME=/h", "COLOR="+v1)
	o1, e1 := eval()
	vAssert("C09.process.first", !e1 && vEq(o1, map[string]any{"c": v1, "l": "c-" + v1}))
	switch ndChoice(4) {
	case 0: // same variable, new value
		vSetEnv("HOME=/h", "COLOR=blue")
		o2, e2 := eval()
		vAssert("C09.process.changed", !e2 && vEq(o2, map[string]any{"c": "blue", "l": "c-blue"}))
	case 1: // the variable is gone, another one took its place
		vSetEnv("HOME=/h", "SHADE=dark")
		_, e2 := eval()
		vAssert("C09.process.removed", e2)
	case 2: // one more variable, the value changed as well
		vSetEnv("HOME=/h", "COLOR=blue", "EXTRA=1")
		o2, e2 := eval()
		vAssert("C09.process.added", !e2 && vEq(o2, map[string]any{"c": "blue", "l": "c-blue"}))
	default: // nothing changed: the same result again
		o2, e2 := eval()
		vAssert("C09.process.same", !e2 && vEq(o2, o1))
	}
	vCover("process.checked")
}

// HarnessC09_stream: a stream of three documents, each taking its
// neighbour's interpolated value through a cross-document reference (so each
// looks at a document that evaluation rewrites): the result is the same on
// every run, whatever the iteration order - and, natively, whatever the
// scheduling, should documents ever be evaluated concurrently.
func HarnessC09_stream() {
	c1 := ndScalarNN()
	mk := func() []any {
		peer := func(n string) any {
			return map[string]any{"$replace": map[string]any{"$match": map[string]any{"name": n}, "$path": "val"}}
		}
		return []any{
			map[string]any{"name": "d0", "src": "zero", "val": `$"v-{src}"`, "peer": peer("d1")},
			map[string]any{"name": "d1", "src": c1, "val": `$"v-{src}"`, "peer": peer("d2")},
			map[string]any{"name": "d2", "src": "two", "val": `$"v-{src}"`, "peer": peer("d0")},
		}
	}
	ref, refErr := c10EvalDocs(mk())
	vObserve("refErr", refErr != nil)
	runs := 3
	if vIsNative() {
		runs = 300
	}
	for r := 0; r < runs; r++ {
		vOrderGlobal(1 + r%3)
		outs, err := c10EvalDocs(mk())
		vOrderGlobal(0)
		vAssert("C09.stream.status", (err != nil) == (refErr != nil))
		if err == nil {
			vAssert("C09.stream.output", vEq(outs, ref))
		}
	}
	vCover("stream.checked")
}
