//go:build verif

package bkl

import (
	"crypto/sha256"
	"encoding/base64"
	"encoding/hex"
	"fmt"
	"sort"
	"strings"
)

func init() {
	vRegister("HarnessC14_transforms", HarnessC14_transforms)
	vRegister("HarnessC14_args", HarnessC14_args)
	vRegister("HarnessC14_base64", HarnessC14_base64)
	vRegister("HarnessC14_codecs", HarnessC14_codecs)
	vRegister("HarnessC14_badargs", HarnessC14_badargs)
}

type c14Err struct{}

// ---- reference semantics of the list/map transforms (DESIGN.md B.5) ----

func c14Text(v any) string { return fmt.Sprintf("%v", v) }

func c14Apply1(t string, x any) any {
	parts := strings.Split(t, ":")
	switch parts[0] {
	case "join":
		l, ok := x.([]any)
		if !ok || len(parts) > 2 {
			return c14Err{}
		}
		d := ""
		if len(parts) == 2 {
			d = parts[1]
		}
		out := ""
		for i, e := range l {
			if i > 0 {
				out += d
			}
			out += c14Text(e)
		}
		return out
	case "prefix":
		l, ok := x.([]any)
		if !ok || len(parts) != 2 {
			return c14Err{}
		}
		out := []any{}
		for _, e := range l {
			out = append(out, parts[1]+c14Text(e))
		}
		return out
	case "flatten":
		l, ok := x.([]any)
		if !ok || len(parts) != 1 {
			return c14Err{}
		}
		out := []any{}
		for _, e := range l {
			if el, ok := e.([]any); ok {
				out = append(out, el...)
			} else {
				out = append(out, e)
			}
		}
		return out
	case "tolist":
		if len(parts) != 2 {
			return c14Err{}
		}
		var maps []any
		if l, ok := x.([]any); ok {
			maps = l
		} else {
			maps = []any{x}
		}
		out := []any{}
		for _, mm := range maps {
			m, ok := mm.(map[string]any)
			if !ok {
				return c14Err{}
			}
			keys := []string{}
			for k := range m {
				keys = append(keys, k)
			}
			sort.Strings(keys)
			for _, k := range keys {
				vals := []any{m[k]}
				if vl, ok := m[k].([]any); ok {
					vals = vl
				}
				for _, v := range vals {
					if s, ok := v.(string); ok && s == "" {
						out = append(out, k)
					} else {
						out = append(out, k+parts[1]+c14Text(v))
					}
				}
			}
		}
		return out
	case "values":
		m, ok := x.(map[string]any)
		if !ok || len(parts) != 1 {
			return c14Err{}
		}
		keys := []string{}
		for k := range m {
			keys = append(keys, k)
		}
		sort.Strings(keys)
		out := []any{}
		for _, k := range keys {
			out = append(out, m[k])
		}
		return out
	case "flags":
		r := c14Apply1("tolist:=", x)
		if _, bad := r.(c14Err); bad {
			return r
		}
		return c14Apply1("prefix:--", r)
	}
	return c14Err{}
}

func c14Apply(ts []string, x any) any {
	for _, t := range ts {
		x = c14Apply1(t, x)
		if _, bad := x.(c14Err); bad {
			return x
		}
	}
	return x
}

// ---- operands ----

var c14SymUsed int

// c14Scalar: a symbolic string (at most two per operand), 7, a symbolic bool
// or the empty string.
func c14Scalar() any {
	switch ndChoice(4) {
	case 0:
		if c14SymUsed >= 2 {
			return "z"
		}
		c14SymUsed++
		return ndStr(2, "print-$")
	case 1:
		return 7
	case 2:
		return ndBool()
	default:
		return ""
	}
}

func c14List() []any {
	n := ndChoice(3)
	l := []any{}
	for i := 0; i < n; i++ {
		l = append(l, c14Scalar())
	}
	return l
}

func c14Map() map[string]any {
	m := map[string]any{}
	for _, k := range []string{"b", "a"} {
		switch ndChoice(3) {
		case 1:
			m[k] = c14Scalar()
		case 2:
			m[k] = []any{c14Scalar(), "x"}
		}
	}
	return m
}

var c14Transforms = []string{"join:,", "join", "prefix:p-", "flatten", "tolist:=", "tolist::", "values", "flags"}

// HarnessC14_transforms: stacks of list/map transforms, left to right.
func HarnessC14_transforms() {
	depth := 1 + ndChoice(2)
	if vTier() > 0 {
		depth = 1 + ndChoice(3)
	}
	ts := []string{}
	for i := 0; i < depth; i++ {
		ts = append(ts, c14Transforms[ndChoice(len(c14Transforms))])
	}
	var x any
	switch ndChoice(4) {
	case 0:
		x = c14List()
	case 1:
		x = c14Map()
	case 2:
		x = []any{c14List(), c14Scalar()}
	default:
		x = []any{c14Map(), map[string]any{"c": c14Scalar()}}
	}
	var enc any
	if len(ts) == 1 && ndChoice(2) == 0 {
		enc = ts[0]
	} else {
		l := []any{}
		for _, t := range ts {
			l = append(l, t)
		}
		enc = l
	}
	doc := map[string]any{"e": map[string]any{"$encode": enc, "$value": vCopy(x)}}
	vObserve("doc", doc)
	want := c14Apply(ts, x)
	got, err := c06Eval(doc)
	vObserve("err", err != nil)
	if _, bad := want.(c14Err); bad {
		vCover("transform.invalid")
		vAssert("C14.transform.reject", err != nil)
		return
	}
	vObserve("want", want)
	// a result that spells a marker (e.g. prefix on an empty string giving
	// "p-" is fine, but joins can build "$x") is outside this harness
	vCover("transform.valid")
	vAssert("C14.transform.accepted", err == nil)
	out := got[0].(map[string]any)
	vObserve("out", out["e"])
	vAssert("C14.transform.result", vEq(out["e"], want))
}

// HarnessC14_args: the argument of join / prefix / tolist is any string of
// 0-2 bytes (the empty one included), over every input shape: the transform
// still does exactly what it names (e.g. an empty prefix still turns every
// element into a string and still rejects a non-list).
func HarnessC14_args() {
	arg := ndStr(2, "set:,-=p. ")
	t := []string{"join:", "prefix:", "tolist:"}[ndChoice(3)] + arg
	var x any
	switch ndChoice(5) {
	case 0:
		x = c14List()
	case 1:
		x = c14Map()
	case 2:
		x = c14Scalar()
	case 3:
		x = []any{c14Map(), map[string]any{"c": c14Scalar()}}
	default:
		x = []any{}
	}
	var enc any = t
	if ndChoice(2) == 1 {
		enc = []any{t}
	}
	doc := map[string]any{"e": map[string]any{"$encode": enc, "$value": vCopy(x)}}
	vObserve("doc", doc)
	want := c14Apply([]string{t}, x)
	got, err := c06Eval(doc)
	vObserve("err", err != nil)
	if _, bad := want.(c14Err); bad {
		vCover("transform.invalid")
		vAssert("C14.args.reject", err != nil)
		return
	}
	vObserve("want", want)
	vCover("transform.valid")
	vAssert("C14.args.accepted", err == nil)
	out := got[0].(map[string]any)
	vObserve("out", out["e"])
	vAssert("C14.args.result", vEq(out["e"], want))
}

// c14B64: independent base64 (RFC 4648, standard alphabet, padded).
func c14B64(s string) string {
	const tab = "ABCDEFGHIJKLMNOPQRSTUVWXYZabcdefghijklmnopqrstuvwxyz0123456789+/"
	enc := func(b byte) byte {
		// branch-free arithmetic form of the table (so that a symbolic
		// 6-bit group does not fork the reference): the masks are all-ones
		// exactly when v is above the boundary
		v := int(b)
		c := 65 + v + (((25 - v) >> 8) & 6) + (((51 - v) >> 8) & -75) + (((61 - v) >> 8) & -15) + (((62 - v) >> 8) & 3)
		return byte(c)
	}
	_ = tab
	out := []byte{}
	for i := 0; i < len(s); i += 3 {
		var b0, b1, b2 byte
		b0 = s[i]
		n := 1
		if i+1 < len(s) {
			b1 = s[i+1]
			n = 2
		}
		if i+2 < len(s) {
			b2 = s[i+2]
			n = 3
		}
		out = append(out, enc(b0>>2), enc((b0&3)<<4|b1>>4))
		if n >= 2 {
			out = append(out, enc((b1&15)<<2|b2>>6))
		} else {
			out = append(out, '=')
		}
		if n == 3 {
			out = append(out, enc(b2&63))
		} else {
			out = append(out, '=')
		}
	}
	return string(out)
}

// HarnessC14_base64: $encode: base64 of every string of <= 4 (quick) / 6
// bytes equals an independent RFC 4648 encoder; the library call made by bkl
// is the real encoding/base64 on concrete data and an exact bit-level model
// of it on symbolic bytes.
func HarnessC14_base64() {
	n := 6
	if vTier() > 0 {
		n = 8
	}
	s := ndStr(n, "any")
	vAssume(vNoByte(s, '$'))
	doc := map[string]any{"e": map[string]any{"$encode": "base64", "$value": s}}
	got, err := c06Eval(doc)
	vAssert("C14.base64.accepted", err == nil)
	out := got[0].(map[string]any)
	vObserve("in", s)
	vObserve("out", out["e"])
	vAssert("C14.base64.rfc", vEq(out["e"], c14B64(s)))
	vCover("base64.checked")
}

var c14Values = []any{"hello", "", 12, true, 1.5, "a b", "x:y", "línea", "x\n", "l1\nl2\n\n", " pad ", "\ttab"}

// HarnessC14_codecs: sha256 / base64 / json / yaml / toml on a table of
// concrete values against the standard library, and $decode as the inverse
// of $encode. (The library bytes themselves are the codec boundary.)
func HarnessC14_codecs() {
	v := c14Values[ndChoice(len(c14Values))]
	switch ndChoice(4) {
	case 0:
		got, err := c06Eval(map[string]any{"e": map[string]any{"$encode": "sha256", "$value": v}})
		vAssert("C14.sha256.accepted", err == nil)
		sum := sha256.Sum256([]byte(fmt.Sprintf("%v", v)))
		vAssert("C14.sha256.value", vEq(got[0].(map[string]any)["e"], hex.EncodeToString(sum[:])))
		vCover("codec.sha256")
	case 1:
		got, err := c06Eval(map[string]any{"e": map[string]any{"$encode": "base64", "$value": v}})
		vAssert("C14.base64.accepted", err == nil)
		vAssert("C14.base64.value", vEq(got[0].(map[string]any)["e"], base64.StdEncoding.EncodeToString([]byte(fmt.Sprintf("%v", v)))))
		vCover("codec.base64")
	default:
		// $decode inverts $encode for json and yaml (and toml for maps)
		f := []string{"json", "yaml", "toml"}[ndChoice(3)]
		// v at an inner position, as the last scalar of the document (last
		// key, last list entry) and as the whole document
		var val any
		switch ndChoice(4) {
		case 0:
			val = map[string]any{"k": v, "l": []any{v, 1}}
		case 1:
			val = map[string]any{"a": 1, "z": v}
		case 2:
			val = map[string]any{"l": []any{1, v}}
		default:
			val = v
		}
		if _, isMap := val.(map[string]any); !isMap && f == "toml" {
			val = map[string]any{"z": v} // a TOML document is a table
		}
		enc, err := c06Eval(map[string]any{"e": map[string]any{"$encode": f, "$value": vCopy(val)}})
		vAssert("C14.encode.accepted", err == nil)
		text := enc[0].(map[string]any)["e"]
		_, isStr := text.(string)
		vAssert("C14.encode.string", isStr)
		dec, err := c06Eval(map[string]any{"d": map[string]any{"$decode": f, "$value": text}})
		vAssert("C14.decode.accepted", err == nil)
		vObserve("val", val)
		vObserve("dec", dec[0].(map[string]any)["d"])
		vAssert("C14.decode.inverse", vEq(dec[0].(map[string]any)["d"], val))
		vCover("codec.roundtrip")
	}
}

// HarnessC14_badargs: malformed arguments are errors.
func HarnessC14_badargs() {
	bad := []any{"base64:x", "sha256:x", "flatten:x", "values:x", "prefix", "tolist", "join:a:b", "nosuchformat", "json:x", 5, true, map[string]any{}, []any{"join", 7}}
	enc := bad[ndChoice(len(bad))]
	var x any = []any{"a", "b"}
	if ndChoice(2) == 1 {
		x = map[string]any{"a": 1}
	}
	_, err := c06Eval(map[string]any{"e": map[string]any{"$encode": enc, "$value": x}})
	vAssert("C14.badargs", err != nil)
	// $decode plumbing: non-string $value, extra keys, several documents
	switch ndChoice(4) {
	case 0:
		_, err = c06Eval(map[string]any{"d": map[string]any{"$decode": "json", "$value": 5}})
	case 1:
		_, err = c06Eval(map[string]any{"d": map[string]any{"$decode": "json", "$value": "1", "x": 1}})
	case 2:
		_, err = c06Eval(map[string]any{"d": map[string]any{"$decode": "json", "$value": "1\n2\n"}})
	default:
		_, err = c06Eval(map[string]any{"d": map[string]any{"$decode": 7, "$value": "1"}})
	}
	vAssert("C14.baddecode", err != nil)
	vCover("badargs.checked")
}
