//go:build verif

package bkl

import (
	"fmt"
	"strings"
)

func init() {
	vRegister("HarnessC13_interp", HarnessC13_interp)
	vRegister("HarnessC13_env", HarnessC13_env)
	vRegister("HarnessC13_repeatvar", HarnessC13_repeatvar)
	vRegister("HarnessC13_missing", HarnessC13_missing)
	vRegister("HarnessC13_witness", HarnessC13_witness)
}

// c13Val: a referenced scalar: bool, small int, plain token or a short
// symbolic string ($-free, brace-free).
func c13Val() any {
	switch ndChoice(4) {
	case 0:
		return ndBool()
	case 1:
		n := ndInt()
		vAssume(vAnd(n >= -9, n <= 9))
		return n
	case 2:
		return "s0"
	default:
		return ndStr(2, "print-${}")
	}
}

// c13Lit: a literal segment: printable, no '$', no '{' (closing braces,
// colons and quotes are allowed).
func c13Lit(n int) string { return ndStr(n, "print-${") }

// c13EnvRegion (known finding C13-K1): an environment value that contains
// "$$" (unescaped on output) or is directive-shaped (rejected by output
// validation) is not passed through as a plain string.
func c13EnvRegion(v string) bool {
	r := vContains(v, "$$")
	if len(v) >= 2 {
		r = vOr(r, vAnd(v[0] == '$', vAnd(v[1] >= 'a', v[1] <= 'z')))
	}
	if len(v) >= 2 {
		r = vOr(r, vAnd(v[0] == '$', vAnd(v[1] == '"', v[len(v)-1] == '"')))
	}
	return r
}

// HarnessC13_interp: $"lit0{a}lit1{$env:FOO}lit2" = lit0 + %v(a) + lit1 +
// $FOO + lit2, for all literal bytes, all values of a and of FOO.
func HarnessC13_interp() {
	n := 2
	if vTier() > 0 {
		n = 3
	}
	env := ndStr(n, "print")
	if c13EnvRegion(env) {
		vCover("known.C13-K1")
		vAssume(false)
	}
	vSetEnv("FOO=" + env)
	a := c13Val()
	segs := ndChoice(4)
	l0, l1, l2 := c13Lit(n), "", ""
	tmpl := `$"` + l0
	want := l0
	if segs >= 1 {
		l1 = c13Lit(n)
		tmpl += "{a}" + l1
		want += fmt.Sprintf("%v", a) + l1
	}
	if segs >= 2 {
		l2 = c13Lit(1)
		tmpl += "{$env:FOO}" + l2
		want += env + l2
	}
	if segs >= 3 {
		tmpl += "{m.b}"
		want += "7"
	}
	tmpl += `"`
	doc := map[string]any{"a": a, "m": map[string]any{"b": 7}, "t": tmpl}
	vObserve("doc", doc)
	vObserve("env", env)
	vObserve("want", want)
	// the resulting text itself may spell a marker or contain "$$" (a "$"
	// from FOO meeting literal text): same known finding
	if c13EnvRegion(want) {
		vCover("known.C13-K1")
		vAssume(false)
	}
	got, err := c06Eval(doc)
	vAssert("C13.interp.accepted", err == nil)
	vAssert("C13.interp.one", len(got) == 1)
	out := got[0].(map[string]any)
	vObserve("out", out["t"])
	vAssert("C13.interp.text", vEq(out["t"], want))
	vCover("interp.checked")
}

// HarnessC13_repeatvar: {$repeat} / {$repeat:x} inside interpolation strings,
// in values and keys, are replaced by the repeat variable IN SCOPE at that
// place: references that follow a nested list repeat (in evaluation order)
// still see the enclosing variable; a reference with no enclosing repeat is
// an error, also after a sibling list repeat has run.
func HarnessC13_repeatvar() {
	n := ndInt()
	vAssume(vAnd(n >= 1, n <= 3))
	kn := 0
	for kn < n {
		kn++
	}
	m := 1 + ndChoice(2)
	inner := func() any {
		return []any{map[string]any{"$repeat": m, "i": `$"i{$repeat}"`}}
	}
	innerWant := func() any {
		l := []any{}
		for j := 0; j < m; j++ {
			l = append(l, map[string]any{"i": fmt.Sprintf("i%d", j)})
		}
		return l
	}
	switch ndChoice(4) {
	case 0: // document-level repeat; references before and after the nested list, and in a key
		doc := map[string]any{"$repeat": n, "before": `$"b{$repeat}"`, "l": inner(), "zz": `$"z{$repeat}-{$repeat}"`, `$"k{$repeat}"`: 1}
		want := []any{}
		for i := 0; i < kn; i++ {
			want = append(want, map[string]any{"before": fmt.Sprintf("b%d", i), "l": innerWant(), "zz": fmt.Sprintf("z%d-%d", i, i), fmt.Sprintf("k%d", i): 1})
		}
		got, err := c06Eval(doc)
		vObserve("got", got)
		vAssert("C13.repeatvar.accepted", err == nil)
		vAssert("C13.repeatvar.doc", vEq(got, want))
		vCover("repeatvar.doc")
	case 1: // named counts
		doc := map[string]any{"$repeat": map[string]any{"x": n, "y": 2}, "l": inner(), "zz": `$"{$repeat:x}/{$repeat:y}"`}
		want := []any{}
		for i := 0; i < kn; i++ {
			for j := 0; j < 2; j++ {
				want = append(want, map[string]any{"l": innerWant(), "zz": fmt.Sprintf("%d/%d", i, j)})
			}
		}
		got, err := c06Eval(doc)
		vObserve("got", got)
		vAssert("C13.repeatvar.accepted", err == nil)
		vAssert("C13.repeatvar.named", vEq(got, want))
		vCover("repeatvar.named")
	case 2: // map-entry repeat around the nested list
		doc := map[string]any{"o": map[string]any{`$"p{$repeat}"`: map[string]any{"$repeat": n, "l": inner(), "zz": `$"z{$repeat}"`}}}
		mm := map[string]any{}
		for i := 0; i < kn; i++ {
			mm[fmt.Sprintf("p%d", i)] = map[string]any{"l": innerWant(), "zz": fmt.Sprintf("z%d", i)}
		}
		got, err := c06Eval(doc)
		vObserve("got", got)
		vAssert("C13.repeatvar.accepted", err == nil)
		vAssert("C13.repeatvar.map", vEq(got, []any{map[string]any{"o": mm}}))
		vCover("repeatvar.map")
	default: // no enclosing repeat: an error, even after a sibling list repeat
		doc := map[string]any{"l": inner(), "zz": `$"z{$repeat}"`}
		if ndChoice(2) == 1 {
			doc = map[string]any{"l": inner(), "zz": "$repeat"}
		}
		_, err := c06Eval(doc)
		vAssert("C13.repeatvar.outofscope", err != nil)
		vCover("repeatvar.outofscope")
	}
}

// HarnessC13_env: $env:NAME as a whole value and as a key is the variable's
// value, always a string.
func HarnessC13_env() {
	n := 4
	if vTier() > 0 {
		n = 6
	}
	env := ndStr(n, "print")
	if c13EnvRegion(env) {
		// inside the region of known finding C13-K1 the value is not passed
		// through; what the finding describes is: rejected by output
		// validation, or emitted with "$$" collapsed to "$". Anything else
		// (for instance the value being EVALUATED) is not the known finding.
		vCover("known.C13-K1")
		vSetEnv("FOO=" + env)
		got, err := c06Eval(map[string]any{"v": "$env:FOO"})
		if err == nil {
			vAssert("C13.env.region.one", len(got) == 1)
			v := got[0].(map[string]any)["v"]
			vObserve("env", env)
			vObserve("v", v)
			vAssert("C13.env.region", vOr(vEq(v, env), vEq(v, strings.ReplaceAll(env, "$$", "$"))))
		}
		return
	}
	vSetEnv("FOO=" + env, "BAR=true", "NUM=12")
	doc := map[string]any{"v": "$env:FOO", "b": "$env:BAR", "n": "$env:NUM", "$env:NUM": 1}
	asKey := ndChoice(2) == 1
	if asKey {
		doc["$env:FOO"] = 2
	}
	vObserve("env", env)
	got, err := c06Eval(doc)
	vAssert("C13.env.accepted", err == nil)
	vAssert("C13.env.one", len(got) == 1)
	out := got[0].(map[string]any)
	vObserve("out", out)
	want := map[string]any{"v": env, "b": "true", "n": "12", "12": 1}
	if asKey {
		// the key FOO evaluates to may coincide with another key; then one
		// of the two entries wins - excluded
		vAssume(vAnd(env != "v", vAnd(env != "b", vAnd(env != "n", env != "12"))))
		want[env] = 2
		vCover("env.key")
	}
	vAssert("C13.env.value", vEq(out, want))
	vCover("env.checked")
}

// HarnessC13_missing: a missing reference or unset variable is an error.
func HarnessC13_missing() {
	vSetEnv("FOO=x")
	var doc map[string]any
	switch ndChoice(5) {
	case 0:
		doc = map[string]any{"t": `$"a{nope}b"`}
	case 1:
		doc = map[string]any{"t": `$"a{$env:NOPE}b"`}
	case 2:
		doc = map[string]any{"t": "$env:NOPE"}
	case 3:
		doc = map[string]any{"$env:NOPE": 1}
	default:
		doc = map[string]any{"a": map[string]any{"b": 1}, "t": `$"{a.c}"`}
	}
	_, err := c06Eval(doc)
	vAssert("C13.missing", err != nil)
	vCover("missing.checked")
	// several references in one template: a missing one at ANY position is
	// an error, whatever the others resolve to
	refs := []string{"a", "$env:FOO", "nope", "$env:NOPE", "m.zz"}
	texts := []string{"1", "x", "", "", ""}
	n := 2 + ndChoice(2)
	tmpl := `$"`
	want := ""
	anyMissing := false
	for i := 0; i < n; i++ {
		r := ndChoice(len(refs))
		if r >= 2 {
			anyMissing = true
		}
		tmpl += "<{" + refs[r] + "}>"
		want += "<" + texts[r] + ">"
	}
	tmpl += `"`
	got, err2 := c06Eval(map[string]any{"a": 1, "m": map[string]any{"b": 2}, "t": tmpl})
	vObserve("tmpl", tmpl)
	if anyMissing {
		vCover("missing.multi")
		vAssert("C13.missing.anyposition", err2 != nil)
	} else {
		vAssert("C13.multi.accepted", err2 == nil)
		vAssert("C13.multi.text", vEq(got[0].(map[string]any)["t"], want))
	}
}

// HarnessC13_witness: C13-K1.
func HarnessC13_witness() {
	var env string
	if ndChoice(2) == 0 {
		env = "x$$y" // comes out as x$y
	} else {
		env = "$foo" // rejected as an invalid directive
	}
	vSetEnv("FOO=" + env)
	got, err := c06Eval(map[string]any{"v": "$env:FOO"})
	vAssert("C13.env.accepted", err == nil)
	vAssert("C13.env.value", vEq(got[0], map[string]any{"v": env}))
}
