//go:build verif

package bkl

func init() {
	vRegister("HarnessC02_stream", HarnessC02_stream)
}

// ---- functional stream model (DESIGN.md B.2): deep copies only ----

type c02Doc struct {
	id   string
	data any
}

type c02Patch struct {
	id      string
	parents []string // ids (documents or patches), transitively closed lazily
}

type c02Model struct {
	docs    []*c02Doc
	parents map[string][]string // id -> direct parent ids
}

func (m *c02Model) allParents(id string, acc map[string]bool) {
	for _, p := range m.parents[id] {
		if !acc[p] {
			acc[p] = true
			m.allParents(p, acc)
		}
	}
}

func (m *c02Model) parentDocs(id string) []*c02Doc {
	acc := map[string]bool{}
	m.allParents(id, acc)
	r := []*c02Doc{}
	for _, d := range m.docs {
		if acc[d.id] {
			r = append(r, d)
		}
	}
	return r
}

// apply: the documented target selection, with the reference matcher
// (specMatch, C01's model) deciding which documents a pattern hits; merging
// itself is done by the real merge on private copies (merge is C01's subject).
func (m *c02Model) apply(id string, data any) bool {
	dm, isMap := data.(map[string]any)
	var targets []*c02Doc
	if pat, has := dm["$match"]; isMap && has {
		rest := map[string]any{}
		for k, v := range dm {
			if k != "$match" {
				rest[k] = vCopy(v)
			}
		}
		data = rest
		if pat == nil {
			nd := &c02Doc{id: id + "|matchnull", data: vCopy(rest)}
			m.docs = append(m.docs, nd)
			m.parents[id] = append(m.parents[id], nd.id)
			return true
		}
		for _, d := range m.parentDocs(id) {
			if specMatch(d.data, pat) {
				targets = append(targets, d)
			}
		}
		if len(targets) == 0 {
			for _, d := range m.docs {
				if specMatch(d.data, pat) {
					targets = append(targets, d)
				}
			}
		}
		if len(targets) == 0 {
			return false
		}
	} else {
		targets = m.parentDocs(id)
		if len(targets) == 0 {
			m.docs = append(m.docs, &c02Doc{id: id, data: vCopy(data)})
			return true
		}
	}
	for _, t := range targets {
		merged, err := merge(vCopy(t.data), vCopy(data))
		if err != nil {
			return false
		}
		t.data = merged
		m.parents[id] = append(m.parents[id], t.id)
	}
	return true
}

// ---- generators ----

// c02Base: a base document: a is any scalar, a map or a list (thorough: or absent).
func c02Base() map[string]any {
	m := map[string]any{}
	n := 3
	if vTier() > 0 {
		n = 4
	}
	switch ndChoice(n) {
	case 0:
		m["a"] = ndScalarNN()
	case 1:
		m["a"] = map[string]any{"x": 1}
	case 2:
		m["a"] = []any{"p", "q"}
	}
	return m
}

func c02Match(m map[string]any, full bool) {
	n := 10
	if !full {
		n = 3
	}
	switch ndChoice(n) {
	case 8:
		// a list pattern: hit only by documents holding ALL its entries
		m["$match"] = map[string]any{"a": []any{"p", "q"}}
	case 9:
		m["$match"] = map[string]any{"a": []any{"q", "z"}}
	case 6:
		// a nested pattern: documents whose "a" is a scalar (or absent) are
		// not hit by it ...
		m["$match"] = map[string]any{"a": map[string]any{"x": 1}}
	case 7:
		// ... and ARE hit by its inversion
		m["$match"] = map[string]any{"a": map[string]any{"x": 1, "$invert": true}}
	case 1:
		m["$match"] = map[string]any{}
	case 2:
		m["$replace"] = true
	case 3:
		m["$match"] = nil
	case 4:
		m["$match"] = map[string]any{"a": ndScalarNN()}
	case 5:
		m["$match"] = map[string]any{"a": ndScalarNN(), "$invert": true}
	}
}

// c02Data: a layer document: values new to or overriding the base (scalar
// over scalar, map over scalar, map into map), with a document-level $match
// in every form, or $replace: true. level 0 = first further layer (full
// menu), level 1 = probing layer (reduced menu in the quick tier).
var c02Three bool

// c02Lean: thorough tier, set when the first further layer has two
// documents: the probing layer then uses the reduced menu (as in quick).
var c02Lean bool

func c02Data(level int) map[string]any {
	m := map[string]any{}
	if c02Three {
		switch ndChoice(4) {
		case 0:
			m["b"] = 6 + level
		case 1:
			m["c"] = map[string]any{"z": level}
		case 2:
			// an empty map: still one private copy per target
			m["c"] = map[string]any{}
		default:
			// a list of maps: merged into several targets it must be copied for each
			m["l"] = []any{map[string]any{"z": level}}
		}
		switch ndChoice(3) {
		case 1:
			m["$match"] = nil
		case 2:
			m["$match"] = map[string]any{"a": ndScalarNN()}
		}
		return m
	}
	if level == 0 || (vTier() > 0 && !c02Lean) {
		n := 4
		if vTier() > 0 {
			n = 5
		}
		switch ndChoice(n) {
		case 1:
			m["a"] = 7
		case 2:
			m["a"] = map[string]any{"y": 2}
		case 3:
			m["l"] = []any{map[string]any{"y": 2}, []any{3}}
		case 4:
			m["a"] = map[string]any{}
		}
		c02Match(m, true)
		return m
	}
	if ndChoice(2) == 0 {
		m["a"] = map[string]any{"w": 3}
	} else {
		m["b"] = 6
	}
	c02Match(m, false)
	return m
}

// HarnessC02_stream: a base stream, then further layers of documents with or
// without $match, applied through Parser.MergeDocument with the parent links
// that file loading sets up. After every step the parser's documents equal
// the functional model (count, order, content), no two documents share a
// map or list, and patch data reused for several targets stays intact.
func HarnessC02_stream() {
	k := 1 + ndChoice(2)
	layers := 1 + ndChoice(2)
	if vTier() > 0 {
		k = 1 + ndChoice(3)
	}
	c02Three = false
	c02Lean = false
	if vTier() == 0 && ndChoice(4) == 0 {
		// quick: also three base documents with two documents per layer, with the reduced menus throughout
		// (thorough reaches three base documents with one document per layer and the full menus)
		k = 3
		layers = 2
		c02Three = true
	}
	p, _ := New()
	model := &c02Model{parents: map[string][]string{}}
	var prev []*Document
	// base layer
	for i := 0; i < k; i++ {
		d := c02Base()
		vObserve("base"+string(rune('0'+i)), d)
		id := "b" + string(rune('0'+i))
		doc := NewDocumentWithData(id, vCopy(d))
		vAssert("C02.base", p.MergeDocument(doc) == nil)
		model.apply(id, d)
		prev = append(prev, doc)
	}
	for l := 0; l < layers; l++ {
		n := 1
		if l == 0 {
			n = 1 + ndChoice(2)
			if k == 3 && vTier() > 0 && !c02Three {
				n = 1 // thorough, three base documents: one document per layer (the quick three-document family keeps two)
			}
			c02Lean = n == 2
		}
		var cur []*Document
		datas := []any{}
		for i := 0; i < n; i++ {
			d := c02Data(l)
			vObserve("layer"+string(rune('0'+l))+string(rune('0'+i)), d)
			datas = append(datas, d)
			doc := NewDocumentWithData("l"+string(rune('0'+l))+string(rune('0'+i)), vCopy(d))
			doc.AddParents(prev...) // what file.setParents does
			cur = append(cur, doc)
		}
		for i, doc := range cur {
			pids := []string{}
			for _, pd := range prev {
				pids = append(pids, pd.ID)
			}
			model.parents[doc.ID] = pids
			okModel := model.apply(doc.ID, datas[i])
			err := p.MergeDocument(doc)
			vObserve("accepted", err == nil)
			vAssert("C02.status", (err == nil) == okModel)
			if err != nil {
				vCover("stream.rejected")
				return
			}
			got := p.Documents()
			vAssert("C02.count", len(got) == len(model.docs))
			for j := range got {
				vObserve("doc"+string(rune('0'+j)), got[j].Data)
				vObserve("want"+string(rune('0'+j)), model.docs[j].data)
				vAssert("C02.content", vEq(got[j].Data, model.docs[j].data))
				for j2 := j + 1; j2 < len(got); j2++ {
					vAssert("C02.disjoint", vDisjoint(got[j].Data, got[j2].Data))
				}
			}
			if len(got) > 1 {
				vCover("stream.multi")
			}
		}
		prev = cur
		vCover("stream.layered")
	}
}
