//go:build verif

package bkl

func init() {
	vRegister("HarnessC08_selfref", HarnessC08_selfref)
	vRegister("HarnessC08_yamlalias", HarnessC08_yamlalias)
	vRegister("HarnessC10_listref", HarnessC10_listref)
	vRegister("HarnessC10_chain", HarnessC10_chain)
	vRegister("HarnessC10_witness", HarnessC10_witness)
}

// HarnessC08_selfref: a map or a list that (directly, through a second node,
// or through an enclosing node) names itself as the subtree to merge in or to
// be replaced by, WITH a list next to the reference: a cycle must be reported
// as an error, within the budgets (an in-place expansion that doubles the
// list at every level exhausts memory long before the depth limit).
func HarnessC08_selfref() {
	var doc map[string]any
	dir := []string{"$merge", "$replace"}[ndChoice(2)]
	switch ndChoice(6) {
	case 0: // a map merging itself
		doc = map[string]any{"a": map[string]any{"l": []any{1}, dir: "a"}}
	case 1: // through a second map
		doc = map[string]any{"a": map[string]any{"l": []any{1}, dir: "b"}, "b": map[string]any{"$merge": "a"}}
	case 2: // the enclosing map
		doc = map[string]any{"a": map[string]any{"l": []any{1}, "b": map[string]any{dir: "a"}}}
	case 3: // a list merging itself (list form)
		doc = map[string]any{"l": []any{map[string]any{dir: "l"}, 1}}
	case 4: // two lists merging each other
		doc = map[string]any{"l": []any{map[string]any{dir: "m"}}, "m": []any{map[string]any{"$merge": "l"}, 1}}
	default: // a list entry merging the list that holds it
		doc = map[string]any{"l": []any{map[string]any{dir: "l", "x": 1}, 1}}
	}
	vObserve("doc", doc)
	_, err := c06Eval(doc)
	vAssert("C08.selfref.reported", err != nil)
	vCover("selfref.checked")
}

// HarnessC08_yamlalias: YAML text in which an anchored node contains an
// alias to itself must be refused with an error; the decoder is the engine's
// native boundary, so this harness is decided by the native replay of every
// path (an unbounded recursion there kills the process, which the replay
// reports as a crash).
func HarnessC08_yamlalias() {
	texts := []string{
		"a: &x [*x]\n",
		"a: &x {b: *x}\n",
		"a: &x [[1, *x]]\n",
		"a: &x {b: &y [*x, *y]}\n",
		"base: &b {k: 1}\na: *b\nc: [*b, *b]\n", // control: repeated aliases are fine
	}
	i := ndChoice(len(texts))
	if vIsNative() {
		f, _ := GetFormat("yaml")
		docs, err := f.UnmarshalStream([]byte(texts[i]))
		if i == len(texts)-1 {
			vAssert("C08.yamlalias.control", err == nil && len(docs) == 1)
		} else {
			vAssert("C08.yamlalias.refused", err != nil)
		}
	}
	vCover("yamlalias.checked")
}

// HarnessC10_listref: a list-form $merge of a list that holds a reference of
// its own, evaluated BEFORE the list it refers to (key order): the referenced
// list must come out as if it had been evaluated alone.
func HarnessC10_listref() {
	c := ndScalarNN()
	n := []any{c}
	mRaw := func() any { return []any{map[string]any{"$merge": "n"}, 1} }
	var doc map[string]any
	switch ndChoice(3) {
	case 0: // l (evaluated first) merges m
		doc = map[string]any{"l": []any{map[string]any{"$merge": "m"}}, "m": mRaw(), "n": n}
	case 1: // a map-form reference to m from a key that sorts before it
		doc = map[string]any{"k": map[string]any{"$replace": "m"}, "m": mRaw(), "n": n}
	default: // nobody refers to m: the reference result
		doc = map[string]any{"m": mRaw(), "n": n}
	}
	alone, err0 := c06Eval(map[string]any{"m": mRaw(), "n": vCopy(n)})
	vAssert("C10.listref.alone", err0 == nil && len(alone) == 1)
	got, err := c06Eval(doc)
	vObserve("doc", doc)
	vAssert("C10.listref.accepted", err == nil && len(got) == 1)
	vObserve("got", got[0])
	vAssert("C10.listref.target", vEq(got[0].(map[string]any)["m"], alone[0].(map[string]any)["m"]))
	vCover("listref.checked")
}

// HarnessC10_chain: chains of references: top refers to mid, mid refers to
// base (mid a placeholder-only {$merge: base} or with content of its own);
// the outer link is evaluated after or before the middle one (key order);
// also paths that run THROUGH the middle link. All equal the hand-inlined
// document.
func HarnessC10_chain() {
	c := ndScalarNN()
	base := func() map[string]any { return map[string]any{"k": map[string]any{"d": c}, "e": 1} }
	midKind := ndChoice(3)
	mid := map[string]any{"$merge": "base"}
	midInl := base()
	if midKind >= 1 {
		mid["own"] = 2
		midInl["own"] = 2
	}
	if midKind == 2 { // a string-form reference inside the middle link (seed C10-6)
		mid["inner"] = "$replace:base.k"
		midInl["inner"] = map[string]any{"d": c}
	}
	names := [][2]string{{"mid", "top"}, {"mid", "a_top"}}[ndChoice(2)]
	midName, topName := names[0], names[1]
	var top, topInl any
	pathThrough := false
	switch ndChoice(7) {
	case 0:
		top = map[string]any{"$merge": midName}
		topInl = vCopy(midInl)
	case 6: // string form of $replace (seed C10-6)
		top = "$replace:" + midName
		topInl = vCopy(midInl)
	case 1:
		top = map[string]any{"$merge": midName, "loc": 3}
		m := vCopy(midInl).(map[string]any)
		m["loc"] = 3
		topInl = m
	case 2:
		top = map[string]any{"$replace": midName}
		topInl = vCopy(midInl)
	case 3:
		top = "$merge:" + midName
		topInl = vCopy(midInl)
	case 4: // a path through the middle link
		pathThrough = true
		top = map[string]any{"$replace": midName + ".k"}
		topInl = map[string]any{"d": c}
	default:
		pathThrough = true
		top = map[string]any{"$replace": []any{midName, "k", "d"}}
		topInl = c
	}
	if pathThrough && topName == "a_top" {
		// known finding C10-K1: a path THROUGH a link that has not been
		// evaluated yet (the outer key sorts before it) is not found
		vCover("known.C10-K1")
		vAssume(false)
	}
	ref := map[string]any{"base": base(), midName: mid, topName: top}
	twin := map[string]any{"base": base(), midName: vCopy(midInl), topName: topInl}
	vObserve("ref", ref)
	got, err := c06Eval(ref)
	want, werr := c06Eval(twin)
	vAssert("C10.chain.twin", werr == nil)
	vAssert("C10.chain.accepted", err == nil)
	vObserve("got", got)
	vObserve("want", want)
	vAssert("C10.chain.same", vEq(got, want))
	vCover("chain.checked")
}

// HarnessC10_witness: known finding C10-K1.
func HarnessC10_witness() {
	_, err := c06Eval(map[string]any{"a_top": map[string]any{"$replace": "mid.k"}, "base": map[string]any{"k": map[string]any{"d": 1}}, "mid": map[string]any{"$merge": "base"}})
	vAssert("C10.chain.accepted", err == nil)
}
