//go:build verif

package bkl

import "errors"

func init() {
	vRegister("HarnessC03_chain", HarnessC03_chain)
	vRegister("HarnessC03_missing", HarnessC03_missing)
	vRegister("HarnessC03_parentforms", HarnessC03_parentforms)
	vRegister("HarnessC03_multi", HarnessC03_multi)
	vRegister("HarnessC03_skipparent", HarnessC03_skipparent)
	vRegister("HarnessC03_symlink", HarnessC03_symlink)
	vRegister("HarnessC03_cycle", HarnessC03_cycle)
}

var c03Exts = []string{"json", "yaml", "yml", "toml"}

var c03ExtN int

// c03Ext: any supported extension (thorough); in the quick tier a choice of
// two, rotating through all four from file to file.
var c03Rotate bool

func c03Ext() string {
	if vTier() > 0 && !c03Rotate {
		return c03Exts[ndChoice(len(c03Exts))]
	}
	c03ExtN++
	return c03Exts[(c03ExtN+ndChoice(2))%len(c03Exts)]
}

// c03Content: layer i sets the shared key v (so that any wrong order shows
// for some value the solver picks) and its own key.
func c03Content(i int) map[string]any {
	return map[string]any{"v": ndScalarNN(), "k" + string(rune('0'+i)): i}
}

func c03With(m map[string]any, k string, v any) map[string]any {
	r := vCopy(m).(map[string]any)
	r[k] = v
	return r
}

type c03Result struct {
	outs []any
	err  bool
}

func c03Layers(paths ...string) c03Result {
	p, err := New()
	if err != nil {
		return c03Result{err: true}
	}
	for _, path := range paths {
		if err := p.MergeFileLayers(path); err != nil {
			return c03Result{err: true}
		}
	}
	outs, err := p.OutputDocuments()
	return c03Result{outs: outs, err: err != nil}
}

// c03Fold: the explicit base-first fold the chain must be equal to.
func c03Fold(contents []map[string]any) c03Result {
	p, _ := New()
	var prev *Document
	for i, c := range contents {
		d := NewDocumentWithData("f"+string(rune('0'+i)), vCopy(c))
		if prev != nil {
			d.AddParents(prev)
		}
		if err := p.MergeDocument(d); err != nil {
			return c03Result{err: true}
		}
		prev = d
	}
	outs, err := p.OutputDocuments()
	return c03Result{outs: outs, err: err != nil}
}

func c03Same(tag string, a, b c03Result) {
	vAssert("C03."+tag+".status", a.err == b.err)
	if !a.err && !b.err {
		vAssert("C03."+tag+".output", vEq(a.outs, b.outs))
	}
}

// HarnessC03_chain: a.b.c.<ext> applies a, a.b, a.b.c base-first, each under
// any supported extension; the same contents as x, y, z wired with $parent,
// and the explicit fold, give the same result.
func HarnessC03_chain() {
	vfsReset()
	depth := 1 + ndChoice(3)
	if vTier() > 0 {
		depth = 1 + ndChoice(4)
	}
	// thorough: every extension for every file up to depth 2; at depth 3
	// for the name chain (the $parent-wired twin rotates through two); the
	// depth-4 chains use the rotating choice of two throughout
	c03Rotate = depth == 4
	rotateTwin := depth >= 3
	names := []string{"a", "a.b", "a.b.c", "a.b.c.d"}[:depth]
	renamed := []string{"x", "y", "z", "q"}[:depth]
	sameExt := false
	if ndChoice(3) == 0 {
		// layer names that are string-suffixes of one another, all with the
		// same extension (a.yaml <- a.a.yaml <- a.a.a.yaml; b.yaml <- a.b.yaml)
		names = []string{"a", "a.a", "a.a.a", "a.a.a.a"}[:depth]
		renamed = []string{"b", "a.b", "c.a.b", "d.c.a.b"}[:depth]
		sameExt = true
	}
	contents := []map[string]any{}
	top, top2 := "", ""
	for i := 0; i < depth; i++ {
		c := c03Content(i)
		contents = append(contents, c)
		e := c03Ext()
		if sameExt {
			e = "yaml"
		}
		top = names[i] + "." + e
		vfsAddFile(top, c)
		c03Rotate = c03Rotate || rotateTwin
		e2 := c03Ext()
		c03Rotate = depth == 4
		if sameExt {
			e2 = "yaml"
		}
		top2 = renamed[i] + "." + e2
		if i == 0 {
			vfsAddFile(top2, c)
		} else {
			vfsAddFile(top2, c03With(c, "$parent", renamed[i-1]))
		}
	}
	for i, c := range contents {
		vObserve("layer"+string(rune('0'+i)), c)
	}
	byName := c03Layers(top)
	byParent := c03Layers(top2)
	fold := c03Fold(contents)
	vObserve("byName.err", byName.err)
	vObserve("fold.err", fold.err)
	c03Same("chain.fold", byName, fold)
	c03Same("chain.parent", byParent, fold)
	if fold.err {
		vCover("chain.rejected")
	} else {
		vCover("chain.accepted")
	}
}

// HarnessC03_missing: a missing layer is an error, never silently skipped.
func HarnessC03_missing() {
	vfsReset()
	depth := 2 + ndChoice(2)
	names := []string{"a", "a.b", "a.b.c"}[:depth]
	missing := ndChoice(depth - 1) // never the top file itself
	top := ""
	for i := 0; i < depth; i++ {
		top = names[i] + "." + c03Ext()
		if i != missing {
			vfsAddFile(top, map[string]any{"k" + string(rune('0'+i)): i})
		}
	}
	r := c03Layers(top)
	vAssert("C03.missing.filename", r.err)
	// and through $parent
	vfsAddFile("y.yaml", map[string]any{"$parent": "nothere", "a": 1})
	vAssert("C03.missing.parent", c03Layers("y.yaml").err)
	// a $parent list (or several documents' $parent) in which one name
	// resolves and another names no file, in either order, plain or wildcard
	vfsAddFile("here.yaml", map[string]any{"$parent": false, "h": 1})
	ghost := []string{"nothere", "nothere.*", "here.*", "he*e.x"}[ndChoice(4)]
	var lst []any
	if ndChoice(2) == 0 {
		lst = []any{"here", ghost}
	} else {
		lst = []any{ghost, "here"}
	}
	if ndChoice(2) == 0 {
		vfsAddFile("z.yaml", map[string]any{"$parent": lst, "a": 1})
	} else {
		vfsAddFile("z.yaml", map[string]any{"$parent": lst[0], "a": 1}, map[string]any{"$parent": lst[1], "b": 1})
	}
	vAssert("C03.missing.parentlist", c03Layers("z.yaml").err)
	vCover("missing.checked")
}

// HarnessC03_parentforms: $parent as false / null (no parent at all, even if
// the file name has dots), as a list, as a wildcard that does not cross dots.
func HarnessC03_parentforms() {
	vfsReset()
	base := map[string]any{"v": ndScalarNN(), "b": 0}
	p1 := map[string]any{"v": ndScalarNN(), "p1": 1}
	p2 := map[string]any{"v": ndScalarNN(), "p2": 2}
	child := map[string]any{"v": ndScalarNN(), "c": 3}
	vfsAddFile("a."+c03Ext(), base)
	vfsAddFile("p.one."+c03Ext(), c03With(p1, "$parent", false))
	vfsAddFile("p.two."+c03Ext(), c03With(p2, "$parent", false))
	vfsAddFile("p.two.deep."+c03Ext(), map[string]any{"$parent": false, "deep": 1})
	switch ndChoice(4) {
	case 0: // false / null: only that file, although the name says a.x
		var none any = false
		if ndChoice(2) == 1 {
			none = nil
		}
		vfsAddFile("a.x.yaml", c03With(child, "$parent", none))
		c03Same("noparent", c03Layers("a.x.yaml"), c03Fold([]map[string]any{child}))
		vCover("forms.none")
	case 1: // a list: parents in list order, before the child
		vfsAddFile("a.x.yaml", c03With(child, "$parent", []any{"p.one", "p.two"}))
		got := c03Layers("a.x.yaml")
		// both parents are merged before the child; p.one then p.two
		p, _ := New()
		d1 := NewDocumentWithData("p1", vCopy(p1))
		d2 := NewDocumentWithData("p2", vCopy(p2))
		dc := NewDocumentWithData("c", vCopy(child))
		dc.AddParents(d1, d2)
		want := c03Result{}
		if p.MergeDocument(d1) != nil || p.MergeDocument(d2) != nil || p.MergeDocument(dc) != nil {
			want.err = true
		} else {
			outs, err := p.OutputDocuments()
			want = c03Result{outs: outs, err: err != nil}
		}
		c03Same("list", got, want)
		vCover("forms.list")
	case 2: // wildcard: p.* matches p.one and p.two, not p.two.deep
		vfsAddFile("a.x.yaml", c03With(child, "$parent", "p.*"))
		got := c03Layers("a.x.yaml")
		p, _ := New()
		d1 := NewDocumentWithData("p1", vCopy(p1))
		d2 := NewDocumentWithData("p2", vCopy(p2))
		dc := NewDocumentWithData("c", vCopy(child))
		dc.AddParents(d1, d2)
		want := c03Result{}
		if p.MergeDocument(d1) != nil || p.MergeDocument(d2) != nil || p.MergeDocument(dc) != nil {
			want.err = true
		} else {
			outs, err := p.OutputDocuments()
			want = c03Result{outs: outs, err: err != nil}
		}
		c03Same("wildcard", got, want)
		vCover("forms.wildcard")
	default: // $parent: true and conflicting directives are errors
		if ndChoice(2) == 0 {
			vfsAddFile("a.x.yaml", c03With(child, "$parent", true))
		} else {
			vfsAddFile("a.x.yaml", c03With(child, "$parent", false), map[string]any{"$parent": "a", "z": 1})
		}
		vAssert("C03.badparent", c03Layers("a.x.yaml").err)
		vCover("forms.invalid")
	}
}

// HarnessC03_multi: several inputs are applied left to right.
func HarnessC03_multi() {
	vfsReset()
	c0, c1, c2 := c03Content(0), c03Content(1), c03Content(2)
	vfsAddFile("a."+c03Ext(), c0)
	vfsAddFile("a.b.yaml", c1)
	vfsAddFile("m.yaml", c2)
	// `bkl a.b.yaml m.yaml`: m has no parents among the loaded documents, so
	// it is appended as a second document after the chain result
	got := c03Layers("a.b.yaml", "m.yaml")
	p, _ := New()
	d0 := NewDocumentWithData("0", vCopy(c0))
	d1 := NewDocumentWithData("1", vCopy(c1))
	d1.AddParents(d0)
	d2 := NewDocumentWithData("2", vCopy(c2))
	want := c03Result{}
	if p.MergeDocument(d0) != nil || p.MergeDocument(d1) != nil || p.MergeDocument(d2) != nil {
		want.err = true
	} else {
		outs, err := p.OutputDocuments()
		want = c03Result{outs: outs, err: err != nil}
	}
	c03Same("multi", got, want)
	if !got.err {
		vAssert("C03.multi.count", len(got.outs) == 2)
	}
	vCover("multi.checked")
}

// HarnessC03_skipparent: MergeFile (what -P calls) evaluates the file's own
// documents alone, also when they carry a $parent directive.
func HarnessC03_skipparent() {
	vfsReset()
	vfsAddFile("a.yaml", map[string]any{"base": 1})
	child := c03Content(1)
	var doc map[string]any
	switch ndChoice(3) {
	case 0:
		doc = child
	case 1:
		doc = c03With(child, "$parent", "a")
	default:
		doc = c03With(child, "$parent", false)
	}
	vfsAddFile("a.x.yaml", doc)
	p, _ := New()
	err := p.MergeFile("a.x.yaml")
	vAssert("C03.skipparent.load", err == nil)
	outs, oerr := p.OutputDocuments()
	vObserve("err", oerr != nil)
	vAssert("C03.skipparent.accepted", oerr == nil)
	vAssert("C03.skipparent.alone", vEq(outs, []any{child}))
	vCover("skipparent.checked")
}

// HarnessC03_symlink: a symlinked layer inherits from its target's name.
func HarnessC03_symlink() {
	vfsReset()
	c0, c1, c2 := c03Content(0), c03Content(1), c03Content(2)
	vfsAddFile("a."+c03Ext(), c0)
	vfsAddFile("a.b.yaml", c1)
	vfsAddDir("d")
	switch ndChoice(5) {
	case 0: // one hop
		vfsAddSymlink("link.yaml", "a.b.yaml")
		c03Same("symlink", c03Layers("link.yaml"), c03Fold([]map[string]any{c0, c1}))
	case 1: // two hops: still the FINAL target's name
		vfsAddSymlink("prod.yaml", "a.b.yaml")
		vfsAddSymlink("current.yaml", "prod.yaml")
		c03Same("symlink2", c03Layers("current.yaml"), c03Fold([]map[string]any{c0, c1}))
	case 2: // three hops through dotted intermediate names (which name no layer)
		vfsAddSymlink("q.r.yaml", "a.b.yaml")
		vfsAddSymlink("s.t.yaml", "q.r.yaml")
		vfsAddSymlink("top.yaml", "s.t.yaml")
		c03Same("symlink3", c03Layers("top.yaml"), c03Fold([]map[string]any{c0, c1}))
	case 3: // a two-hop link as the file-name parent of a further layer
		vfsAddSymlink("w.yaml", "a.b.yaml")
		vfsAddSymlink("x.yaml", "w.yaml")
		vfsAddFile("x.y.yaml", c2)
		c03Same("symlinkparent", c03Layers("x.y.yaml"), c03Fold([]map[string]any{c0, c1, c2}))
	default: // a link in another directory, relative target
		vfsAddSymlink("d/far.yaml", "../a.b.yaml")
		c03Same("symlinkdir", c03Layers("d/far.yaml"), c03Fold([]map[string]any{c0, c1}))
	}
	vCover("symlink.checked")
}

// HarnessC03_cycle: $parent cycles between files are reported as errors
// (C08 clause; any hang or stack overflow is caught by the engine's budgets).
func HarnessC03_cycle() {
	vfsReset()
	switch ndChoice(6) {
	case 3: // a cycle below the entry file: x -> y -> z -> y
		vfsAddFile("x.yaml", map[string]any{"$parent": "y", "a": 1})
		vfsAddFile("y.json", map[string]any{"$parent": "z", "b": 1})
		vfsAddFile("z.toml", map[string]any{"$parent": "y", "c": 1})
	case 4: // deeper: x -> y -> z -> w -> z
		vfsAddFile("x.yaml", map[string]any{"$parent": "y", "a": 1})
		vfsAddFile("y.json", map[string]any{"$parent": "z", "b": 1})
		vfsAddFile("z.toml", map[string]any{"$parent": "w", "c": 1})
		vfsAddFile("w.yaml", map[string]any{"$parent": []any{"z"}, "d": 1})
	case 5: // a self-parent below the entry: x -> y -> y
		vfsAddFile("x.yaml", map[string]any{"$parent": "y", "a": 1})
		vfsAddFile("y.json", map[string]any{"$parent": "y", "b": 1})
	case 0:
		vfsAddFile("x.yaml", map[string]any{"$parent": "x", "a": 1})
	case 1:
		vfsAddFile("x.yaml", map[string]any{"$parent": "y", "a": 1})
		vfsAddFile("y.json", map[string]any{"$parent": "x", "b": 1})
	default:
		vfsAddFile("x.yaml", map[string]any{"$parent": "y", "a": 1})
		vfsAddFile("y.json", map[string]any{"$parent": "z", "b": 1})
		vfsAddFile("z.toml", map[string]any{"$parent": []any{"x"}, "c": 1})
	}
	p, _ := New()
	err := p.MergeFileLayers("x.yaml")
	vAssert("C08.parentcycle", err != nil && errors.Is(err, Err))
	vCover("cycle.checked")
}
