//go:build verif

package bkl

import (
	"errors"
	"unicode"
)

func init() {
	vRegister("HarnessC07_clean", HarnessC07_clean)
	vRegister("HarnessC07_required", HarnessC07_required)
	vRegister("HarnessC07_hidden", HarnessC07_hidden)
	vRegister("HarnessC07_viaref", HarnessC07_viaref)
	vRegister("HarnessC07_outputs", HarnessC07_outputs)
	vRegister("HarnessC07_encode", HarnessC07_encode)
	vRegister("HarnessC07_latin1", HarnessC07_latin1)
}

// c07Marker: s is an unresolved marker: $required, or "$" followed by a
// lower-case (ASCII) letter. One formula, no fork.
func c07Marker(s string) bool {
	m := s == "$required"
	if len(s) >= 2 {
		m = vOr(m, vAnd(s[0] == '$', vAnd(s[1] >= 'a', s[1] <= 'z')))
	}
	return m
}

// c07Clean: no key or string value of t is a marker.
func c07Clean(t any) bool {
	ok := true
	switch x := t.(type) {
	case map[string]any:
		for k, v := range x {
			ok = vAnd(ok, vAnd(!c07Marker(k), c07Clean(v)))
		}
	case []any:
		for _, v := range x {
			ok = vAnd(ok, c07Clean(v))
		}
	case string:
		ok = !c07Marker(x)
	}
	return ok
}

// directive names and shapes for the second position ($$-free)
var c07Tokens = []string{
	"$merge", "$replace", "$encode", "$decode", "$value", "$repeat", "$output", "$match", "$delete",
	"$required", "$parent", "$invert", "$path", "$merge:m", "$replace:m.x", `$"{m.x}"`, "$env:HOME", "$repeat:x",
	"$unknown", "$", "$A", "a", "m.x", "json", "true",
}

// HarnessC07_clean: any $$-free string at any key/value position, next to a
// directive name at a second position, in one or two layers: whenever
// evaluation succeeds, no marker is part of any output.
func HarnessC07_clean() {
	n := 6
	if vTier() > 0 {
		n = 8
	}
	pos := ndChoice(5)
	pos2 := (pos + 1 + ndChoice(2)*2) % 5
	tok := c07Tokens[ndChoice(len(c07Tokens))]
	s := ndStr(n, "print")
	vAssume(!vContains(s, "$$"))
	tree := c06Skeleton(pos, s, pos2, tok, func() any { return 7 })
	vObserve("tree", tree)
	var outs []any
	var err error
	if ndChoice(2) == 0 {
		outs, err = c06Eval(vCopy(tree))
	} else {
		outs, err = c06Eval(map[string]any{"m": map[string]any{"x": 1, "y": "$required"}, "z": "$required"}, vCopy(tree))
		vCover("clean.layered")
	}
	vObserve("err", err != nil)
	if err != nil {
		vCover("clean.rejected")
		return
	}
	vCover("clean.accepted")
	vObserve("outs", outs)
	for _, o := range outs {
		vAssert("C07.clean", c07Clean(o))
	}
}

// HarnessC07_required: a $required in the lower layer is satisfied only by
// an upper layer that overrides it.
func HarnessC07_required() {
	mark := func() any {
		if ndChoice(2) == 0 {
			return "$required"
		}
		return "s0"
	}
	r1, r2, r3 := mark(), mark(), mark()
	base := map[string]any{"a": r1, "m": map[string]any{"b": r2, "c": 1}, "l": []any{r3, 2}}
	upper := map[string]any{}
	ovA := ndChoice(2) == 1
	ovB := ndChoice(2) == 1
	ovLkind := ndChoice(4) // 0 untouched, 1 append a value, 2 append a marker, 3 append both
	ovL := ovLkind != 0
	other := ndChoice(2) == 1
	if ovA {
		upper["a"] = ndScalarNN()
	}
	if ovB {
		upper["m"] = map[string]any{"b": 7}
	} else if other {
		upper["m"] = map[string]any{"d": 7} // mentions the map, not the marker
	}
	switch ovLkind {
	case 1:
		upper["l"] = []any{3}
	case 2:
		upper["l"] = []any{"$required"}
	case 3:
		upper["l"] = []any{3, "$required"}
	}
	vObserve("base", base)
	vObserve("upper", upper)
	var outs []any
	var err error
	if len(upper) == 0 {
		outs, err = c06Eval(vCopy(base))
	} else {
		outs, err = c06Eval(vCopy(base), vCopy(upper))
	}
	// a marker the upper layer itself appends is unsatisfied as well
	remaining := (r1 == "$required" && !ovA) || (r2 == "$required" && !ovB) || (r3 == "$required" && !ovL) || ovLkind >= 2
	if a, isStr := upper["a"].(string); isStr && r1 == "s0" && a == "s0" {
		// the upper layer repeats the lower value: a useless override, rejected for that reason
		vAssert("C07.useless", err != nil)
		return
	}
	if remaining {
		vCover("required.unmet")
		vAssert("C07.required.refused", err != nil && errors.Is(err, ErrRequiredField))
		return
	}
	vCover("required.met")
	vAssert("C07.required.accepted", err == nil)
	vAssert("C07.required.one", len(outs) == 1)
	vAssert("C07.required.clean", c07Clean(outs[0]))
}

// c07Unknown: s is directive-shaped but is none of the strings that evaluate
// to something ($merge:, $replace:, $env:, $repeat, $"..").
func c07Unknown(s string) bool {
	ok := vAnd(c07Marker(s), !vContains(s, "$$"))
	for _, p := range []string{"$merge:", "$replace:", "$env:"} {
		if len(s) >= len(p) {
			ok = vAnd(ok, s[:len(p)] != p)
		}
	}
	ok = vAnd(ok, s != "$repeat")
	return ok
}

var c07EvalKeys = []string{"$merge", "$replace", "$encode", "$decode", "$value", "$repeat", "$output", "$match"}

// HarnessC07_hidden: markers under $output: false do not cause failure and
// do not appear.
func HarnessC07_hidden() {
	n := 6
	if vTier() > 0 {
		n = 9
	}
	s := ndStr(n, "print")
	vAssume(c07Unknown(s))
	hidden := map[string]any{"$output": false}
	switch ndChoice(3) {
	case 0:
		hidden["x"] = s
	case 1:
		for _, k := range c07EvalKeys {
			vAssume(s != k)
		}
		hidden[s] = 1
	default:
		hidden["l"] = []any{s, "$required"}
	}
	tree := map[string]any{"h": hidden, "v": 1}
	vObserve("tree", tree)
	outs, err := c06Eval(vCopy(tree))
	vAssert("C07.hidden.accepted", err == nil)
	vAssert("C07.hidden.one", len(outs) == 1)
	vObserve("out", outs[0])
	vAssert("C07.hidden.out", vEq(outs[0], map[string]any{"v": 1}))
	vCover("hidden.checked")
}

// HarnessC07_viaref: a marker that sits in a hidden subtree does not fail the
// evaluation by itself (C07_hidden), but a visible value that obtains it
// through a reference - a one-reference interpolation, "$merge:"/"$replace:"
// strings, a $replace map - would emit it: evaluation must fail.
func HarnessC07_viaref() {
	marker := []string{"$required", "$delete", "$bogus", "$match"}[ndChoice(4)]
	hidden := map[string]any{"$output": false, "name": marker, "ok": "plain"}
	var ref any
	switch ndChoice(5) {
	case 0:
		ref = `$"{h.name}"`
	case 1:
		ref = "$merge:h.name"
	case 2:
		ref = "$replace:h.name"
	case 3:
		ref = map[string]any{"$replace": "h.name"}
	default:
		ref = []any{`$"{h.name}"`, 1}
	}
	tree := map[string]any{"h": hidden, "v": ref}
	if ndChoice(2) == 1 {
		// the marker as a key of the visible map, through an interpolated key
		tree = map[string]any{"h": hidden, `$"{h.name}"`: 1}
	}
	vObserve("tree", tree)
	outs, err := c06Eval(vCopy(tree))
	vObserve("err", err != nil)
	if err == nil {
		for _, o := range outs {
			vAssert("C07.viaref.clean", c07Clean(o))
		}
	}
	vAssert("C07.viaref.refused", err != nil)
	// control: the plain sibling of the marker comes through
	ctl, cerr := c06Eval(map[string]any{"h": vCopy(hidden), "v": `$"{h.ok}"`})
	vAssert("C07.viaref.control", cerr == nil && len(ctl) == 1 && vEq(ctl[0], map[string]any{"v": "plain"}))
	vCover("viaref.checked")
}

// HarnessC07_outputs: the same question for every way a subtree can become
// an output document: an explicit $output: true map, an explicit output
// below an ancestor hidden by $output: false (root or inner), a list selected
// by a marker entry, nested selections. Whenever evaluation succeeds, no
// emitted document holds a marker; a bare $required inside an emitted subtree
// always fails the evaluation.
func HarnessC07_outputs() {
	n := 3
	if vTier() > 0 {
		n = 5
	}
	pos := ndChoice(5)
	pos2 := (pos + 1 + ndChoice(2)*2) % 5
	tok := c07Tokens[ndChoice(len(c07Tokens))]
	s := ndStr(n, "print")
	vAssume(!vContains(s, "$$"))
	vAssume(vAnd(vAnd(s != "m", s != "ll"), vAnd(s != "l", s != "x"))) // the skeleton's own keys
	sub := c06Skeleton(pos, s, pos2, tok, func() any { return 7 }).(map[string]any)
	w := ndChoice(5)
	var tree any
	switch w {
	case 0: // explicit output
		sub["$output"] = true
		tree = map[string]any{"keep": 1, "svc": sub}
	case 1: // explicit output below a hidden root
		sub["$output"] = true
		tree = map[string]any{"$output": false, "svc": sub}
	case 2: // explicit output below a hidden inner map
		sub["$output"] = true
		tree = map[string]any{"keep": 1, "h": map[string]any{"$output": false, "svc": sub}}
	case 3: // a list selected by a marker entry, below a hidden root
		tree = map[string]any{"$output": false, "l": []any{map[string]any{"$output": true}, sub}}
	default: // nested selections
		sub["$output"] = true
		tree = map[string]any{"$output": false, "o": map[string]any{"$output": true, "svc": sub, "y": 2}}
	}
	vObserve("tree", tree)
	outs, err := c06Eval(vCopy(tree))
	vObserve("err", err != nil)
	if tok == "$required" && pos2 != 0 && pos2 != 2 && ((pos != 0 && pos != 2) || vNoByte(s, '$')) {
		// a bare $required as a value or list entry of the emitted subtree
		// (not when s is a key that is itself evaluated, e.g. $"m": its
		// result may collide with a sibling key, whose value then wins)
		vAssert("C07.outputs.required", err != nil)
	}
	if err != nil {
		vCover("outputs.rejected")
		return
	}
	vCover("outputs.accepted")
	vObserve("outs", outs)
	for _, o := range outs {
		vAssert("C07.outputs.clean", c07Clean(o))
	}
}

// HarnessC07_encode: a marker inside an $encode subtree makes evaluation
// fail instead of being encoded.
func HarnessC07_encode() {
	n := 6
	if vTier() > 0 {
		n = 9
	}
	s := ndStr(n, "print")
	vAssume(c07Unknown(s))
	var enc any
	em := map[string]any{"$encode": "json"}
	enc = em
	switch ndChoice(7) {
	case 0:
		em["x"] = s
	case 1:
		for _, k := range c07EvalKeys {
			vAssume(s != k)
		}
		em[s] = 1
	case 2:
		em["l"] = []any{1, s}
	case 3:
		// the list form of $encode, encoders that produce one string
		enc = []any{map[string]any{"$encode": "join:,"}, "first", s}
	case 4:
		enc = []any{map[string]any{"$encode": "json"}, map[string]any{"inner": s}}
	case 5:
		for _, k := range c07EvalKeys {
			vAssume(s != k)
		}
		enc = []any{map[string]any{"$encode": "json"}, map[string]any{s: 1}}
	default:
		enc = []any{map[string]any{"$encode": []any{"tolist:=", "join:,"}}, map[string]any{"b": s}}
	}
	tree := map[string]any{"e": enc, "v": 1}
	vObserve("tree", tree)
	_, err := c06Eval(vCopy(tree))
	vAssert("C07.encode.refused", err != nil)
	vCover("encode.checked")
}

// HarnessC07_latin1: the character after "$" is a two-byte UTF-8 letter
// (Latin-1 supplement): "$" + lower-case letter (é, ß, µ ...) is a marker and
// must be rejected, "$" + upper-case or non-letter (É, ×, ÷ ...) is plain data
// and must pass through. Every two-byte sequence C2/C3 xx is covered; the
// expectation decodes the rune independently of bkl.
func HarnessC07_latin1() {
	lead := byte(0xc2 + ndChoice(2))
	cont := ndStrN(1, "any")
	vAssume(vAnd(cont[0] >= 0x80, cont[0] <= 0xbf))
	tail := ""
	if ndChoice(2) == 1 {
		tail = "x"
	}
	s := "$" + string([]byte{lead}) + cont + tail
	r := rune(lead&0x1f)<<6 | rune(cont[0]&0x3f)
	lower := unicode.IsLower(r)
	pos := ndChoice(3)
	var doc map[string]any
	switch pos {
	case 0:
		doc = map[string]any{"v": s}
	case 1:
		doc = map[string]any{s: 1}
	default:
		doc = map[string]any{"l": []any{s}}
	}
	vObserve("s", s)
	outs, err := c06Eval(vCopy(doc))
	vObserve("err", err != nil)
	if lower {
		vCover("latin1.lower")
		vAssert("C07.latin1.rejected", err != nil)
		return
	}
	vCover("latin1.other")
	vAssert("C07.latin1.accepted", err == nil)
	vAssert("C07.latin1.same", vEq(outs[0], doc))
}
