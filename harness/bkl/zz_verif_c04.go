//go:build verif

package bkl

import (
	"encoding/json"

	"gopkg.in/yaml.v3"
)

func init() {
	vRegister("HarnessC04_ints", HarnessC04_ints)
	vRegister("HarnessC04_floats", HarnessC04_floats)
	vRegister("HarnessC04_mergekeys", HarnessC04_mergekeys)
	vRegister("HarnessC04_mergevalues", HarnessC04_mergevalues)
	vRegister("HarnessC04_compare", HarnessC04_compare)
	vRegister("HarnessC04_structure", HarnessC04_structure)
	vRegister("HarnessC04_streams", HarnessC04_streams)
}

// The three decoders are outside (third-party parsers). What is decided here
// is bkl's own canonicalisation of what they hand over, under their
// documented delivery contracts:
//   JSON  json.Number(text)         (decoder uses UseNumber)
//   YAML  *yaml.Node{Tag, Value}    (yamlTranslateNode parses the text)
//   TOML  int64 / float64
// for EVERY 64-bit integer and EVERY double.

func c04FromJSONInt(n int64) (any, error)  { return normalize(json.Number(vIntText(n))) }
func c04FromJSONFloat(x float64) (any, error) { return normalize(json.Number(vFloatText(x))) }
func c04FromTOMLInt(n int64) (any, error)  { return normalize(n) }
func c04FromTOMLFloat(x float64) (any, error) { return normalize(x) }
func c04FromYAMLInt(n int64) (any, error) {
	v, err := yamlTranslateNode(&yaml.Node{Kind: yaml.ScalarNode, Tag: "!!int", Value: vIntText(n)})
	if err != nil {
		return nil, err
	}
	return normalize(v)
}
func c04FromYAMLFloat(x float64) (any, error) {
	v, err := yamlTranslateNode(&yaml.Node{Kind: yaml.ScalarNode, Tag: "!!float", Value: vFloatText(x)})
	if err != nil {
		return nil, err
	}
	return normalize(v)
}

// HarnessC04_ints: every int64 arrives as Go int with the same value,
// whichever format it was written in.
func HarnessC04_ints() {
	n := ndInt64()
	vObserve("n", n)
	route := ndChoice(3)
	var got any
	var err error
	switch route {
	case 0:
		got, err = c04FromJSONInt(n)
		vCover("int.json")
	case 1:
		got, err = c04FromYAMLInt(n)
		vCover("int.yaml")
	default:
		got, err = c04FromTOMLInt(n)
		vCover("int.toml")
	}
	vAssert("C04.int.accepted", err == nil)
	vObserve("got", got)
	i, isInt := got.(int)
	vAssert("C04.int.type", isInt)
	vAssert("C04.int.value", int64(i) == n)
}

// HarnessC04_floats: every finite double arrives as float64 with exactly the
// same value.
func HarnessC04_floats() {
	x := ndFloat()
	vAssume(x == x)                     // not NaN
	vAssume(x-x == 0)                   // finite
	vObserve("x", x)
	var got any
	var err error
	switch ndChoice(3) {
	case 0:
		got, err = c04FromJSONFloat(x)
		vCover("float.json")
	case 1:
		got, err = c04FromYAMLFloat(x)
		vCover("float.yaml")
	default:
		got, err = c04FromTOMLFloat(x)
		vCover("float.toml")
	}
	vAssert("C04.float.accepted", err == nil)
	vObserve("got", got)
	f, isFloat := got.(float64)
	vAssert("C04.float.type", isFloat)
	vAssert("C04.float.value", f == x)
}

// HarnessC04_compare: the comparisons bkl makes agree across formats: $match,
// useless-override detection and the $repeat count check give the same
// answer whichever two formats the two sides came from.
func HarnessC04_compare() {
	n := ndInt64()
	from := func(r int, n int64) any {
		var v any
		var err error
		switch r {
		case 0:
			v, err = c04FromJSONInt(n)
		case 1:
			v, err = c04FromYAMLInt(n)
		default:
			v, err = c04FromTOMLInt(n)
		}
		vAssume(err == nil)
		return v
	}
	a := from(ndChoice(3), n)
	b := from(ndChoice(3), n)
	vAssert("C04.match", match(map[string]any{"a": a}, map[string]any{"a": b}))
	_, err := merge(a, b)
	vAssert("C04.useless", err != nil)
	vAssume(vAnd(n >= 0, n <= 2))
	docs, _, rerr := repeatDocGen(NewDocumentWithData("d", map[string]any{"x": 1}), NewEvalContext(), a)
	vAssert("C04.repeat", rerr == nil && int64(len(docs)) == n)
	vCover("compare.checked")
}

func c04Scalar(tag, val string) *yaml.Node {
	return &yaml.Node{Kind: yaml.ScalarNode, Tag: tag, Value: val}
}

func c04Map(pairs ...*yaml.Node) *yaml.Node {
	return &yaml.Node{Kind: yaml.MappingNode, Tag: "!!map", Content: pairs}
}

// HarnessC04_mergekeys: a YAML mapping with a merge key equals the expanded
// mapping: local keys win, earlier entries of a merge list win.
func HarnessC04_mergekeys() {
	keys := []string{"a", "b", "c"}
	mkAnchor := func(tagval string) (*yaml.Node, map[string]any) {
		var pairs []*yaml.Node
		exp := map[string]any{}
		for _, k := range keys {
			if ndChoice(2) == 1 {
				pairs = append(pairs, c04Scalar("!!str", k), c04Scalar("!!str", tagval+k))
				exp[k] = tagval + k
			}
		}
		return c04Map(pairs...), exp
	}
	m1, e1 := mkAnchor("one-")
	m2, e2 := mkAnchor("two-")
	var local []*yaml.Node
	want := map[string]any{}
	asList := ndChoice(2) == 1
	if asList {
		// <<: [*m1, *m2]  - earlier wins
		for k, v := range e2 {
			want[k] = v
		}
		for k, v := range e1 {
			want[k] = v
		}
		seq := &yaml.Node{Kind: yaml.SequenceNode, Tag: "!!seq", Content: []*yaml.Node{
			{Kind: yaml.AliasNode, Alias: m1}, {Kind: yaml.AliasNode, Alias: m2}}}
		local = append(local, c04Scalar("!!merge", "<<"), seq)
		vCover("mergekey.list")
	} else {
		for k, v := range e1 {
			want[k] = v
		}
		local = append(local, c04Scalar("!!merge", "<<"), &yaml.Node{Kind: yaml.AliasNode, Alias: m1})
		_ = m2
		vCover("mergekey.single")
	}
	// local keys, placed before or after the merge key, always win
	for _, k := range keys {
		if ndChoice(2) == 1 {
			pair := []*yaml.Node{c04Scalar("!!str", k), c04Scalar("!!str", "local-"+k)}
			if ndChoice(2) == 1 {
				local = append(pair, local...)
			} else {
				local = append(local, pair...)
			}
			want[k] = "local-" + k
		}
	}
	got, err := yamlTranslateNode(c04Map(local...))
	vAssert("C04.mergekey.accepted", err == nil)
	vObserve("got", got)
	vObserve("want", want)
	vAssert("C04.mergekey.expanded", vEq(got, want))
}

// HarnessC04_mergevalues: merge keys whose merged maps share keys holding the
// SAME scalar, maps or lists: YAML's merge key copies whole values (earlier
// entry of a merge list wins, local keys win); nothing is merged deeply,
// concatenated or rejected as it would be between bkl layers.
func HarnessC04_mergevalues() {
	keys := []string{"a", "b"}
	str := func(s string) *yaml.Node { return c04Scalar("!!str", s) }
	mkVal := func(tag string) (*yaml.Node, any) {
		switch ndChoice(4) {
		case 0:
			return str(tag), tag
		case 1:
			return str("same"), "same"
		case 2:
			return c04Map(str(tag), str("1"), str("k"), str("v")), map[string]any{tag: "1", "k": "v"}
		default:
			return &yaml.Node{Kind: yaml.SequenceNode, Tag: "!!seq", Content: []*yaml.Node{str(tag)}}, []any{tag}
		}
	}
	mkAnchor := func(tag string) (*yaml.Node, map[string]any) {
		var pairs []*yaml.Node
		exp := map[string]any{}
		for _, k := range keys {
			if ndChoice(2) == 1 {
				n, v := mkVal(tag)
				pairs = append(pairs, str(k), n)
				exp[k] = v
			}
		}
		return c04Map(pairs...), exp
	}
	m1, e1 := mkAnchor("one")
	m2, e2 := mkAnchor("two")
	want := map[string]any{}
	for k, v := range e2 {
		want[k] = v
	}
	for k, v := range e1 {
		want[k] = v
	}
	seq := &yaml.Node{Kind: yaml.SequenceNode, Tag: "!!seq", Content: []*yaml.Node{
		{Kind: yaml.AliasNode, Alias: m1}, {Kind: yaml.AliasNode, Alias: m2}}}
	local := []*yaml.Node{c04Scalar("!!merge", "<<"), seq}
	if ndChoice(2) == 1 {
		n, v := mkVal("local")
		local = append(local, str("a"), n)
		want["a"] = v
	}
	got, err := yamlTranslateNode(c04Map(local...))
	vAssert("C04.mergevalues.accepted", err == nil)
	vObserve("got", got)
	vObserve("want", want)
	vAssert("C04.mergevalues.expanded", vEq(got, want))
	vCover("mergevalues.checked")
}

// c04Deliver builds the same logical document {n: <int>, f: <float>, l: [<int>,
// {k: <float>}], t: [{a: <int>}, {a: <int>}]} the way each decoder delivers it:
//   JSON  numbers as json.Number, containers as map[string]any / []any
//   TOML  int64 / float64, an array of tables as []map[string]any
//   YAML  a yaml.Node tree (sequence / mapping / scalar nodes with tags)
func c04Deliver(format int, n, n2 int64, x float64) (any, error) {
	switch format {
	case 0:
		return normalize(map[string]any{
			"n": json.Number(vIntText(n)), "f": json.Number(vFloatText(x)),
			"l": []any{json.Number(vIntText(n2)), map[string]any{"k": json.Number(vFloatText(x))}},
			"t": []any{map[string]any{"a": json.Number(vIntText(n))}, map[string]any{"a": json.Number(vIntText(n2))}},
		})
	case 1:
		return normalize(map[string]any{
			"n": n, "f": x,
			"l": []any{n2, map[string]any{"k": x}},
			"t": []map[string]any{{"a": n}, {"a": n2}},
		})
	default:
		str := func(s string) *yaml.Node { return c04Scalar("!!str", s) }
		in := func(v int64) *yaml.Node { return c04Scalar("!!int", vIntText(v)) }
		fl := func(v float64) *yaml.Node { return c04Scalar("!!float", vFloatText(v)) }
		seq := func(items ...*yaml.Node) *yaml.Node {
			return &yaml.Node{Kind: yaml.SequenceNode, Tag: "!!seq", Content: items}
		}
		doc := &yaml.Node{Kind: yaml.DocumentNode, Content: []*yaml.Node{c04Map(
			str("n"), in(n), str("f"), fl(x),
			str("l"), seq(in(n2), c04Map(str("k"), fl(x))),
			str("t"), seq(c04Map(str("a"), in(n)), c04Map(str("a"), in(n2))),
		)}}
		v, err := yamlTranslateNode(doc)
		if err != nil {
			return nil, err
		}
		return normalize(v)
	}
}

// HarnessC04_structure: the same logical document delivered by the three
// decoders is canonicalised to the same tree, for every pair of int64 and
// every finite double it holds, and that tree has the expected types.
func HarnessC04_structure() {
	n, n2 := ndInt64(), ndInt64()
	x := ndFloat()
	vAssume(x == x)
	vAssume(x-x == 0)
	fa, fb := ndChoice(3), ndChoice(3)
	a, errA := c04Deliver(fa, n, n2, x)
	b, errB := c04Deliver(fb, n, n2, x)
	vAssert("C04.structure.accepted", errA == nil && errB == nil)
	vObserve("a", a)
	vObserve("b", b)
	vAssert("C04.structure.same", vEq(a, b))
	want := map[string]any{
		"n": int(n), "f": x,
		"l": []any{int(n2), map[string]any{"k": x}},
		"t": []any{map[string]any{"a": int(n)}, map[string]any{"a": int(n2)}},
	}
	vAssert("C04.structure.canonical", vEq(a, want))
	// and a layer written in one format matches/overrides one written in another
	vAssert("C04.structure.match", match(a, b))
	vCover("structure.checked")
}

// c04StreamDocs: concrete documents (TOML has no null and no non-map roots).
var c04StreamDocs = []any{
	map[string]any{},
	map[string]any{"a": 1},
	map[string]any{"a": []any{1, map[string]any{"b": "x"}}, "z": true},
	map[string]any{"m": map[string]any{}, "l": []any{}},
	map[string]any{"f": 1.5, "neg": -3, "s": ""},
	map[string]any{"t": []any{map[string]any{"a": 1}, map[string]any{"a": 2}}},
}

// HarnessC04_streams: a stream of 1-3 documents (empty maps included, at any
// position) written by any format's encoder and read back by the same
// format's decoder + normalize is the same stream, for every format; hence
// the same logical stream is delivered identically whichever format it is
// written in. The stream codecs are the engine's native boundary: the real
// functions run on this concrete data, in the engine and in the replay.
func HarnessC04_streams() {
	name := []string{"json", "jsonl", "json-pretty", "yaml", "toml"}[ndChoice(5)]
	n := 1 + ndChoice(3)
	docs := []any{}
	for i := 0; i < n; i++ {
		docs = append(docs, c04StreamDocs[ndChoice(len(c04StreamDocs))])
	}
	vObserve("docs", docs)
	f, err := GetFormat(name)
	vAssert("C04.streams.format", err == nil)
	text, err := f.MarshalStream(docs)
	vAssert("C04.streams.encode", err == nil)
	back, err := f.UnmarshalStream(text)
	vAssert("C04.streams.decode", err == nil)
	vAssert("C04.streams.count", len(back) == len(docs))
	for i := range back {
		nd, err := normalize(back[i])
		vAssert("C04.streams.normalize", err == nil)
		vObserve("back", nd)
		vAssert("C04.streams.same", vEq(nd, docs[i]))
	}
	vCover("streams.checked")
}
