//go:build verif

package bkl

func init() {
	vRegister("HarnessC19_history", HarnessC19_history)
}

// c19Doc: documents that evaluation has something to do with.
func c19Doc(i int, symbolic bool) any {
	var c any = "tok"
	if symbolic {
		c = ndScalarNN()
	}
	switch ndChoice(13) {
	case 12: // two entries of one map evaluate to the same key (interpolated key vs literal)
		return map[string]any{"name": "web", `$"{name}"`: "generated", "web": c, "z": 1}
	case 11: // the same through a repeated map entry with an interpolated key
		return map[string]any{"m": map[string]any{`$"srv{$repeat}"`: map[string]any{"$repeat": 2, "port": 80}, "srv1": map[string]any{"port": c}}}
	case 10: // a document whose top level is a list, with a cross-document $merge next to other keys
		return []any{map[string]any{"name": "web", "c": c, "$merge": map[string]any{"$match": map[string]any{"id": 2}, "$path": "base"}}, "plain"}
	case 9: // a $merge map with sibling keys inside a list-valued key
		return map[string]any{"tmpl": map[string]any{"port": c}, "services": []any{map[string]any{"name": "web", "$merge": "tmpl"}, []any{map[string]any{"$merge": "tmpl", "n": 1}}}}
	case 7: // a forward cross-document reference into a subtree that itself holds a $merge
		// (the referring document has a key "base" of its own, so the nested
		// $merge: base of the referenced subtree resolves in its context)
		return map[string]any{"h": map[string]any{"$replace": []any{map[string]any{"id": 2}, "tmpl"}}, "k": c, "base": map[string]any{"x": 9}}
	case 8: // the document such a reference points into
		return map[string]any{"id": 2, "base": map[string]any{"x": c}, "tmpl": map[string]any{"$merge": "base", "y": 3}}
	case 0:
		return map[string]any{"t": map[string]any{"x": c}, "h": map[string]any{"$merge": "t", "y": 1}}
	case 1:
		return map[string]any{"t": map[string]any{"x": c}, "h": map[string]any{"$replace": "t"}, "s": "$merge:t.x"}
	case 2:
		return map[string]any{"$repeat": 2, "v": "$repeat", "c": c}
	case 3:
		return map[string]any{"e": map[string]any{"$encode": "join:,", "$value": []any{"a", "b"}}, "c": c}
	case 4:
		return map[string]any{"a": map[string]any{"$output": true, "c": c}, "b": map[string]any{"$output": false, "x": 1}, "l": []any{map[string]any{"$repeat": 2, "i": "$repeat"}}}
	case 5:
		return map[string]any{"n": c, "s": `$"v={n}"`, "z": nil}
	default:
		return map[string]any{"k": c}
	}
}

// c19Layer: an upper layer for document kind k.
func c19Layer() any {
	switch ndChoice(5) {
	case 4:
		return map[string]any{"tmpl": map[string]any{"port": "moved"}}
	case 3:
		return map[string]any{"base": map[string]any{"x": "rebased"}}
	case 0:
		return map[string]any{"extra": 1}
	case 1:
		return map[string]any{"c": "changed"}
	default:
		return map[string]any{"$match": nil, "appended": 1}
	}
}

type c19Snap struct {
	outs []any
	err  bool
}

func c19Out(p *Parser) c19Snap {
	outs, err := p.OutputDocuments()
	return c19Snap{outs: outs, err: err != nil}
}

func c19Docs(p *Parser) []any {
	r := []any{}
	for _, d := range p.Documents() {
		r = append(r, vCopy(d.Data))
	}
	return r
}

// HarnessC19_history: a history of MergeDocument / OutputDocuments /
// Documents calls on one parser, next to a twin parser that receives the same
// merges but is never asked for output.
func HarnessC19_history() {
	steps := 3
	if vTier() > 0 {
		steps = 4
	}
	p, _ := New()
	twin, _ := New()
	ndocs := 1 + ndChoice(2)
	var lastP, lastT *Document
	for i := 0; i < ndocs; i++ {
		d := c19Doc(i, ndocs == 1)
		vObserve("doc"+string(rune('0'+i)), d)
		dp := NewDocumentWithData("d"+string(rune('0'+i)), vCopy(d))
		dt := NewDocumentWithData("d"+string(rune('0'+i)), vCopy(d))
		vAssert("C19.setup", p.MergeDocument(dp) == nil && twin.MergeDocument(dt) == nil)
		lastP, lastT = dp, dt
	}
	outputs := 0
	var prev c19Snap
	havePrev := false
	for s := 0; s < steps; s++ {
		switch ndChoice(3) {
		case 0: // output: must equal the previous output if nothing was merged in between
			before := c19Docs(p)
			// successive outputs run under different iteration policies of
			// the evaluator's map ranges (insertion order, reversed, rotated):
			// "the same bytes each time" whatever order Go picks
			vOrderGlobal(outputs % 4)
			cur := c19Out(p)
			vOrderGlobal(0)
			after := c19Docs(p)
			vAssert("C19.docs.unchanged", vEq(before, after))
			if havePrev {
				vAssert("C19.repeatable.status", cur.err == prev.err)
				if !cur.err {
					vAssert("C19.repeatable.bytes", vEq(cur.outs, prev.outs))
				}
				vCover("history.repeat")
			}
			prev, havePrev = cur, true
			outputs++
		case 1: // merge a further layer into both parsers
			l := c19Layer()
			lp := NewDocumentWithData("l"+string(rune('0'+s)), vCopy(l))
			lt := NewDocumentWithData("l"+string(rune('0'+s)), vCopy(l))
			lp.AddParents(lastP)
			lt.AddParents(lastT)
			e1 := p.MergeDocument(lp)
			e2 := twin.MergeDocument(lt)
			vAssert("C19.merge.status", (e1 == nil) == (e2 == nil))
			if e1 != nil {
				return
			}
			havePrev = false
			vCover("history.merge")
		default: // the exposed documents are the merged, unevaluated trees
			vAssert("C19.documents", vEq(c19Docs(p), c19Docs(twin)))
			vCover("history.documents")
		}
	}
	// in the end the parser that produced output agrees with the twin
	vAssert("C19.final.documents", vEq(c19Docs(p), c19Docs(twin)))
	a := c19Out(p)
	vOrderGlobal(1)
	b := c19Out(twin)
	vOrderGlobal(0)
	vAssert("C19.final.status", a.err == b.err)
	if !a.err {
		vAssert("C19.final.outputs", vEq(a.outs, b.outs))
	}
	if outputs > 0 {
		vCover("history.withoutput")
	}
}
