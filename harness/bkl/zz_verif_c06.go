//go:build verif

package bkl

import "strings"

func init() {
	vRegister("HarnessC06_identity", HarnessC06_identity)
	vRegister("HarnessC06_escape", HarnessC06_escape)
	vRegister("HarnessC06_keys", HarnessC06_keys)
	vRegister("HarnessC06_unicode", HarnessC06_unicode)
}

// c06Plain: s carries no directive and no doubled dollar (ASCII strings):
// no "$$", not "$" followed by a lower-case letter, not $"..." .
func c06Plain(s string) bool {
	ok := !vContains(s, "$$")
	if len(s) >= 2 {
		dir := vAnd(s[0] == '$', vAnd(s[1] >= 'a', s[1] <= 'z'))
		interp := vAnd(s[0] == '$', vAnd(s[1] == '"', s[len(s)-1] == '"'))
		ok = vAnd(ok, vAnd(!dir, !interp))
	}
	return ok
}

// plain tokens for the second position of the identity harness
var c06PlainTokens = []string{"$FOO", "${X}", "$(cmd)", "a$b", "$", "x", "$1", "$A", `$"x`, "a.b", "{a}", `"`, "$ a", "k1"}

// every directive name and look-alike, for the escape harness
var c06AllTokens = []string{
	"$merge", "$replace", "$encode", "$decode", "$value", "$repeat", "$output", "$match", "$delete",
	"$required", "$parent", "$invert", "$path", "$merge:x", `$"{a}"`, "$env:HOME", "$repeat:x",
	"$", "$$", "$$$", "$a", "$A", `$"x"`, `$"`, `$""`, "a", "a.b", "{a}", "$$a", "a$$", "$replace:a",
}

func c06DropNil(t any) any {
	switch x := t.(type) {
	case map[string]any:
		r := map[string]any{}
		for k, v := range x {
			if v == nil {
				continue
			}
			r[k] = c06DropNil(v)
		}
		return r
	case []any:
		r := []any{}
		for _, v := range x {
			if v == nil {
				continue
			}
			r = append(r, c06DropNil(v))
		}
		return r
	}
	return t
}

func c06Esc(s string) string { return strings.ReplaceAll(s, "$", "$$") }

func c06EscTree(t any) any {
	switch x := t.(type) {
	case map[string]any:
		r := map[string]any{}
		for k, v := range x {
			r[c06Esc(k)] = c06EscTree(v)
		}
		return r
	case []any:
		r := []any{}
		for _, v := range x {
			r = append(r, c06EscTree(v))
		}
		return r
	case string:
		return c06Esc(x)
	}
	return t
}

func c06Eval(layers ...any) ([]any, error) {
	p, err := New()
	if err != nil {
		return nil, err
	}
	var prev *Document
	for i, l := range layers {
		d := NewDocumentWithData("l"+string(rune('0'+i)), l)
		if prev != nil {
			d.AddParents(prev)
		}
		if err := p.MergeDocument(d); err != nil {
			return nil, err
		}
		prev = d
	}
	return p.OutputDocuments()
}

// c06Skeleton builds
//   { K1: V1, "m": { K3: V3, "x": <scalar> }, "l": [ V4, <scalar> ] }
// where position pos (0..4 = K1,V1,K3,V3,V4) holds s and position pos2 holds
// tok; the others hold fixed distinct plain strings.
func c06Skeleton(pos int, s string, pos2 int, tok string, leaf func() any) any {
	str := []string{"k1", "v1", "k3", "v3", "v4"}
	str[pos] = s
	if pos2 != pos {
		str[pos2] = tok
	}
	inner := map[string]any{"x": leaf()}
	inner[str[2]] = str[3]
	root := map[string]any{
		"m": inner,
		"l": []any{str[4], leaf()},
		// the same strings once more below a list that is itself a list
		// entry (value, and key/value of a map there)
		"ll": []any{[]any{str[4], map[string]any{str[2]: str[3]}}},
	}
	root[str[0]] = str[1]
	return root
}

func c06N() int {
	if vTier() > 0 {
		return 8
	}
	return 6
}

// HarnessC06_identity: a document without directives and without "$$"
// evaluates to itself (null entries dropped). One string - any key or value
// at any depth - is fully symbolic (every byte string up to N printable
// bytes satisfying plain()); a second one is taken from a table of plain
// look-alikes.
func HarnessC06_identity() {
	pos := ndChoice(5)
	var pos2 int
	var tok string
	leaf := ndScalar
	if vTier() == 0 {
		// quick: as thorough but leaves fixed (nil / 7) instead of symbolic-kind scalars
		pos2 = ndChoice(5)
		tok = c06PlainTokens[ndChoice(len(c06PlainTokens))]
		flip := false
		leaf = func() any {
			flip = !flip
			if flip {
				return nil
			}
			return 7
		}
	} else {
		pos2 = ndChoice(5)
		tok = c06PlainTokens[ndChoice(len(c06PlainTokens))]
	}
	s := ndStr(c06N(), "print")
	vAssume(c06Plain(s))
	tree := c06Skeleton(pos, s, pos2, tok, leaf)
	vObserve("tree", tree)
	outs, err := c06Eval(vCopy(tree))
	vObserve("err", err != nil)
	vAssert("C06.identity.accepted", err == nil)
	vAssert("C06.identity.one", len(outs) == 1)
	vObserve("out", outs[0])
	vAssert("C06.identity.same", vEq(outs[0], c06DropNil(tree)))
	vCover("identity.checked")
}

// HarnessC06_escape: doubling every $ in arbitrary data gives a document that
// evaluates to the original data, alone and as the child of a layering.
func HarnessC06_escape() {
	pos := ndChoice(5)
	var pos2 int
	var tok string
	leaf := ndScalarNN
	if vTier() == 0 {
		pos2 = (pos + 2) % 5
		tok = c06AllTokens[ndChoice(len(c06AllTokens))]
		leaf = func() any { return 7 }
	} else {
		// thorough: the second position is free as well, strings up to 8
		// bytes; leaves stay concrete (the escape does not look at them)
		pos2 = ndChoice(5)
		tok = c06AllTokens[ndChoice(len(c06AllTokens))]
		leaf = func() any { return 7 }
	}
	n := c06N()
	if vTier() > 0 {
		n = 7
	}
	s := ndStr(n, "print")
	tree := c06Skeleton(pos, s, pos2, tok, leaf)
	vObserve("tree", tree)
	esc := c06EscTree(tree)
	vObserve("esc", esc)
	layered := ndChoice(2) == 1
	var outs []any
	var err error
	want := tree
	if layered {
		parent := map[string]any{"$$parentkey": 1}
		outs, err = c06Eval(parent, vCopy(esc))
		w := vCopy(tree).(map[string]any)
		// a symbolic key may coincide with the parent's key; then the
		// child's value replaces it (ordinary merge), else both are there
		if _, has := w["$parentkey"]; !has {
			w["$parentkey"] = 1
		}
		want = w
		vCover("escape.layered")
	} else {
		outs, err = c06Eval(vCopy(esc))
		vCover("escape.single")
	}
	vObserve("err", err != nil)
	vAssert("C06.escape.accepted", err == nil)
	vAssert("C06.escape.one", len(outs) == 1)
	vObserve("out", outs[0])
	vAssert("C06.escape.same", vEq(outs[0], want))
}

// HarnessC06_keys: two sibling keys symbolic at once (assumed different):
// collisions in finalizeMap / filterMap.
func HarnessC06_keys() {
	n := 3
	if vTier() > 0 {
		n = 4
	}
	a := ndStr(n, "set:$ax")
	b := ndStr(n, "set:$ax")
	vAssume(a != b)
	tree := map[string]any{}
	tree[a] = 1
	tree[b] = 2
	vObserve("tree", tree)
	esc := c06EscTree(tree)
	outs, err := c06Eval(vCopy(esc))
	vAssert("C06.keys.accepted", err == nil)
	vAssert("C06.keys.one", len(outs) == 1)
	vObserve("out", outs[0])
	vAssert("C06.keys.same", vEq(outs[0], tree))
	vCover("keys.checked")
}

// HarnessC06_unicode: "$" followed by a multi-byte character that is not a
// lower-case letter (2-, 3- and 4-byte UTF-8: É, €, 日, 😀, →) and a symbolic
// tail is plain data: it passes through unchanged as value, key and list
// entry, alone and $-doubled.
func HarnessC06_unicode() {
	chars := []string{"É", "€", "日", "😀", "→", "×"}
	c := chars[ndChoice(len(chars))]
	s := "$" + c + ndStr(2, "print")
	vAssume(!vContains(s, "$$"))
	var doc map[string]any
	switch ndChoice(3) {
	case 0:
		doc = map[string]any{"v": s}
	case 1:
		doc = map[string]any{s: 1}
	default:
		doc = map[string]any{"l": []any{s, 1}}
	}
	vObserve("doc", doc)
	outs, err := c06Eval(vCopy(doc))
	vAssert("C06.unicode.accepted", err == nil)
	vAssert("C06.unicode.same", vEq(outs[0], doc))
	outs2, err2 := c06Eval(c06EscTree(doc))
	vAssert("C06.unicode.escaped.accepted", err2 == nil)
	vAssert("C06.unicode.escaped.same", vEq(outs2[0], doc))
	vCover("unicode.checked")
}
