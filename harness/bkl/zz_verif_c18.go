//go:build verif

package bkl

func init() {
	vRegister("HarnessC18_root", HarnessC18_root)
	vRegister("HarnessC18_nested", HarnessC18_nested)
}

// c18Build lays out
//   /w/root/...        the root (input files, symlinks that try to leave it)
//   /w/decoy.yaml      a layer file OUTSIDE the root (present or absent)
// attempt selects how the input tries to reach the decoy.
func c18Build(attempt int, decoy any, decoyPresent bool, inner any) string {
	vfsReset()
	vfsAddDir("root")
	vfsAddDir("root/sub")
	vfsAddSymlink("rootlink", "root")
	if decoyPresent {
		vfsAddFile("decoy.yaml", decoy)
	}
	in := map[string]any{"in": inner}
	switch attempt {
	case 0: // no escape: parent inside the root
		vfsAddFile("root/base.yaml", map[string]any{"base": 1})
		in["$parent"] = "base"
		vfsAddFile("root/in.yaml", in)
		return "root/in.yaml"
	case 1: // $parent with ..
		in["$parent"] = "../decoy"
		vfsAddFile("root/in.yaml", in)
		return "root/in.yaml"
	case 2: // absolute $parent
		in["$parent"] = vfsAbs("/w/decoy")
		vfsAddFile("root/in.yaml", in)
		return "root/in.yaml"
	case 3: // the input itself is a symlink that leaves the root
		vfsAddSymlink("root/link.yaml", "../decoy.yaml")
		return "root/link.yaml"
	case 4: // the file-name parent is a symlink that leaves the root
		vfsAddSymlink("root/in.yaml", "../decoy.yaml")
		vfsAddFile("root/in.x.yaml", in)
		return "root/in.x.yaml"
	case 5: // directory symlink inside the root pointing out of it
		vfsAddSymlink("root/up", "..")
		in["$parent"] = "up/decoy"
		vfsAddFile("root/in.yaml", in)
		return "root/in.yaml"
	case 6: // chained symlinks
		vfsAddSymlink("root/l1.yaml", "l2.yaml")
		vfsAddSymlink("root/l2.yaml", "../decoy.yaml")
		return "root/l1.yaml"
	case 7: // absolute symlink target
		vfsAddSymlink("root/abs.yaml", vfsAbs("/w/decoy.yaml"))
		return "root/abs.yaml"
	case 8: // a $parent list mixing a parent inside the root with one outside
		vfsAddFile("root/base.yaml", map[string]any{"base": 1})
		in["$parent"] = []any{"base", "../decoy"}
		vfsAddFile("root/in.yaml", in)
		return "root/in.yaml"
	case 9: // a wildcard $parent reaching out of the root
		in["$parent"] = "../dec*"
		vfsAddFile("root/in.yaml", in)
		return "root/in.yaml"
	case 11: // absolute link spelled inside the root whose target then leaves it
		vfsAddSymlink("root/in.yaml", vfsAbs("/w/root/hop.yaml"))
		vfsAddSymlink("root/hop.yaml", "../decoy.yaml")
		return "root/in.yaml"
	case 12: // the same through a parent and a directory link
		vfsAddSymlink("root/base.yaml", vfsAbs("/w/root/dirhop/decoy.yaml"))
		vfsAddSymlink("root/dirhop", "..")
		in["$parent"] = "base"
		vfsAddFile("root/in.yaml", in)
		return "root/in.yaml"
	case 13: // a chain of more links than os.Root follows (8); the 9th leaves the root
		vfsAddSymlink("root/in.yaml", "c1.yaml")
		for i := 1; i < 9; i++ {
			vfsAddSymlink("root/c"+string(rune('0'+i))+".yaml", "c"+string(rune('0'+i+1))+".yaml")
		}
		vfsAddSymlink("root/c9.yaml", "../decoy.yaml")
		return "root/in.yaml"
	case 14: // the same through a parent, the long chain made of directory links
		vfsAddSymlink("root/d1", "d2")
		for i := 2; i < 10; i++ {
			vfsAddSymlink("root/d"+string(rune('0'+i)), "d"+string(rune('0'+i+1)))
		}
		vfsAddSymlink("root/d:", "..")
		in["$parent"] = "d1/decoy"
		vfsAddFile("root/in.yaml", in)
		return "root/in.yaml"
	default: // a parent inside a sub-directory referring back up and out
		vfsAddFile("root/sub/mid.yaml", map[string]any{"$parent": "../../decoy", "mid": 1})
		in["$parent"] = "sub/mid"
		vfsAddFile("root/in.yaml", in)
		return "root/in.yaml"
	}
}

type c18Result struct {
	outs []any
	err  bool
}

func c18Run(path string, spelling int) c18Result {
	p, err := New()
	if err != nil {
		return c18Result{err: true}
	}
	switch spelling {
	case 0:
		err = p.SetRoot("root")
	case 1:
		err = p.SetRoot("./root/../root")
	case 2:
		err = p.SetRoot(vfsAbs("/w/root"))
	case 3: // nested SetRoot calls
		err = p.SetRoot(".")
		if err == nil {
			err = p.SetRoot("root")
		}
	default: // the root named through a symlink to it
		err = p.SetRoot("rootlink")
	}
	if err != nil {
		return c18Result{err: true}
	}
	if err := p.MergeFileLayers(path); err != nil {
		return c18Result{err: true}
	}
	outs, err := p.OutputDocuments()
	return c18Result{outs: outs, err: err != nil}
}

// HarnessC18_root: with a root set, output and success status are independent
// of the content and of the existence of every file outside the root, every
// attempt to reach such a file fails, and file content is obtained only
// through the os.Root handle from inside the root.
func HarnessC18_root() {
	attempt := ndChoice(15)
	spelling := ndChoice(5)
	inner := ndScalarNN()
	d1 := map[string]any{"secret": ndScalarNN()}
	d2 := map[string]any{"secret": ndScalarNN(), "other": 1}

	path := c18Build(attempt, d1, true, inner)
	r1 := c18Run(path, spelling)
	outside1 := vfsReadsOutside("root")
	api1 := vfsUnconfinedReads()

	path = c18Build(attempt, d2, true, inner)
	r2 := c18Run(path, spelling)

	path = c18Build(attempt, nil, false, inner)
	r3 := c18Run(path, spelling)

	vObserve("attempt", attempt)
	vObserve("r1.err", r1.err)
	vObserve("r3.err", r3.err)
	vAssert("C18.independent.content.status", r1.err == r2.err)
	vAssert("C18.independent.existence.status", r1.err == r3.err)
	if !r1.err {
		vAssert("C18.independent.content.output", vEq(r1.outs, r2.outs))
		vAssert("C18.independent.existence.output", vEq(r1.outs, r3.outs))
	}
	if attempt == 0 {
		// With the root named through a symlink the real os.Root refuses
		// the "../root/in.yaml" that bkl derives from its lexical rootPath,
		// so nothing loads at all; that is confinement holding, only the
		// positive control is not applicable to that spelling.
		if spelling != 4 {
			vAssert("C18.inside.works", !r1.err)
		}
		vCover("root.inside")
	} else {
		vAssert("C18.escape.fails", r1.err)
		vCover("root.escape")
	}
	// engine-only observations (the set of files read is not visible to a
	// native replay): no content was obtained from outside the root
	vAssert("C18.confined.reads", outside1 == 0)
	_ = api1
}

// HarnessC18_nested: a second SetRoot call can only narrow the root. After
// SetRoot("root"), attempts to move the root to a parent directory, to an
// absolute path outside it, or through a directory symlink that leaves it
// must fail, and the parser stays confined; a legitimate narrowing to a
// sub-directory works and then confines to that sub-directory.
func HarnessC18_nested() {
	secret := map[string]any{"secret": ndScalarNN()}
	build := func(decoy bool) {
		vfsReset()
		vfsAddDir("root/sub")
		vfsAddSymlink("root/up", "..")
		vfsAddSymlink("root/far", "../elsewhere")
		vfsAddDir("elsewhere")
		if decoy {
			vfsAddFile("decoy.yaml", secret)
			vfsAddFile("elsewhere/decoy.yaml", secret)
		}
		vfsAddFile("root/base.yaml", map[string]any{"base": 1})
		vfsAddFile("root/sub/in.yaml", map[string]any{"in": 1})
		vfsAddFile("root/sub/esc.yaml", map[string]any{"$parent": "../base", "esc": 1})
		vfsAddFile("root/in.yaml", map[string]any{"$parent": "../decoy", "x": 1})
		vfsAddFile("root/up/in2.yaml", map[string]any{"y": 1})
	}
	attempt := ndChoice(6)
	run := func(decoy bool) (bool, bool, []any) {
		build(decoy)
		p, err := New()
		if err != nil || p.SetRoot("root") != nil {
			return true, true, nil
		}
		var second error
		path := "root/in.yaml"
		switch attempt {
		case 0:
			second = p.SetRoot(".") // the parent of the current root
		case 1:
			second = p.SetRoot("..")
		case 2:
			second = p.SetRoot(vfsAbs("/w"))
		case 3:
			second = p.SetRoot("root/up") // directory symlink leaving the root
			path = "root/up/decoy.yaml"
		case 4:
			second = p.SetRoot("root/far")
			path = "root/far/decoy.yaml"
		default:
			second = p.SetRoot("root/sub") // legitimate narrowing
			path = "root/sub/esc.yaml"      // its $parent is inside the old root, outside the new one
		}
		lerr := p.MergeFileLayers(path)
		var outs []any
		if lerr == nil {
			var oerr error
			outs, oerr = p.OutputDocuments()
			if oerr != nil {
				lerr = oerr
			}
		}
		return second != nil, lerr != nil, outs
	}
	s1, e1, o1 := run(true)
	s2, e2, o2 := run(false)
	vObserve("attempt", attempt)
	vObserve("second.failed", s1)
	vObserve("load.failed", e1)
	if attempt < 5 {
		vAssert("C18.nested.widening.refused", s1)
		vCover("nested.widen")
	} else {
		vAssert("C18.nested.narrowing.accepted", !s1)
		vCover("nested.narrow")
	}
	// whatever the second call did, nothing outside the first root is reachable
	vAssert("C18.nested.escape.fails", e1)
	vAssert("C18.nested.independent.status", s1 == s2 && e1 == e2)
	if !e1 {
		vAssert("C18.nested.independent.output", vEq(o1, o2))
	}
	vAssert("C18.nested.confined.reads", vfsReadsOutside("root") == 0)
	// after a legitimate narrowing a file of the sub-directory still loads
	if attempt == 5 {
		build(true)
		p, _ := New()
		vAssert("C18.nested.setup", p.SetRoot("root") == nil && p.SetRoot("root/sub") == nil)
		vAssert("C18.nested.sub.works", p.MergeFileLayers("root/sub/in.yaml") == nil)
	}
}
