//go:build verif

package bkl

func init() {
	vRegister("HarnessC11_output", HarnessC11_output)
	vRegister("HarnessC11_dupmarkers", HarnessC11_dupmarkers)
	vRegister("HarnessC11_stream", HarnessC11_stream)
	vRegister("HarnessC11_witness", HarnessC11_witness)
	vRegister("HarnessC11_symleaf", HarnessC11_symleaf)
	vRegister("HarnessC11_spine", HarnessC11_spine)
}

// ---- model (DESIGN.md B.3) ----

// c11Mark: +1 selected ($output: true), -1 hidden ($output: false), 0 none.
func c11Mark(t any) int {
	switch x := t.(type) {
	case map[string]any:
		if v, ok := x["$output"]; ok {
			if v == true {
				return 1
			}
			if v == false {
				return -1
			}
		}
	case []any:
		for _, e := range x {
			if em, ok := e.(map[string]any); ok {
				if v, ok := em["$output"]; ok && len(em) == 1 {
					if v == true {
						return 1
					}
					if v == false {
						return -1
					}
				}
			}
		}
	}
	return 0
}

func c11IsMarkerEntry(e any) bool {
	em, ok := e.(map[string]any)
	if !ok || len(em) != 1 {
		return false
	}
	_, has := em["$output"]
	return has
}

type c11Removed struct{}

// c11HideStrip: the subtree as it appears in an output: containers marked
// false removed, markers stripped.
func c11HideStrip(t any) any {
	if c11Mark(t) < 0 {
		return c11Removed{}
	}
	switch x := t.(type) {
	case map[string]any:
		r := map[string]any{}
		for k, v := range x {
			if k == "$output" {
				continue
			}
			hv := c11HideStrip(v)
			if _, gone := hv.(c11Removed); gone {
				continue
			}
			r[k] = hv
		}
		return r
	case []any:
		r := []any{}
		for _, e := range x {
			if c11IsMarkerEntry(e) {
				continue
			}
			hv := c11HideStrip(e)
			if _, gone := hv.(c11Removed); gone {
				continue
			}
			r = append(r, hv)
		}
		return r
	}
	return t
}

func c11Selected(t any, acc []any) []any {
	if c11Mark(t) > 0 {
		acc = append(acc, t)
	}
	switch x := t.(type) {
	case map[string]any:
		for _, k := range []string{"a", "b"} {
			if v, ok := x[k]; ok {
				acc = c11Selected(v, acc)
			}
		}
	case []any:
		for _, e := range x {
			if c11IsMarkerEntry(e) {
				continue // the list's own marker, not a container
			}
			acc = c11Selected(e, acc)
		}
	}
	return acc
}

// c11Region: C11-R1 — a map that carries a boolean $output marker next to
// other keys and sits directly in a list: bkl takes it for the list's marker
// entry and fails with "extra keys".
func c11Region(t any) bool {
	switch x := t.(type) {
	case map[string]any:
		for _, v := range x {
			if c11Region(v) {
				return true
			}
		}
	case []any:
		for _, e := range x {
			if em, ok := e.(map[string]any); ok && len(em) > 1 && c11Mark(em) != 0 {
				return true
			}
			if c11Region(e) {
				return true
			}
		}
	}
	return false
}

func c11Outs(t any) []any {
	sel := c11Selected(t, nil)
	if len(sel) == 0 {
		sel = []any{t}
	}
	outs := []any{}
	for _, s := range sel {
		h := c11HideStrip(s)
		if _, gone := h.(c11Removed); gone {
			continue
		}
		outs = append(outs, h)
	}
	return outs
}

func c11NoMarker(t any) bool {
	switch x := t.(type) {
	case map[string]any:
		for k, v := range x {
			if k == "$output" || !c11NoMarker(v) {
				return false
			}
		}
	case []any:
		for _, e := range x {
			if !c11NoMarker(e) {
				return false
			}
		}
	}
	return true
}

// c11MultisetEq: same elements with the same multiplicities, any order.
func c11MultisetEq(a, b []any) bool {
	if len(a) != len(b) {
		return false
	}
	used := make([]bool, len(b))
	for _, x := range a {
		hit := false
		for j, y := range b {
			if !used[j] && vEq(x, y) {
				used[j] = true
				hit = true
				break
			}
		}
		if !hit {
			return false
		}
	}
	return true
}

// ---- generator ----

var (
	c11SymLeaves bool
	c11Counter   int
)

// c11Leaf: distinct concrete ints (the $output code never looks at leaf
// values), or symbolic-kind scalars in the symleaf family.
func c11Leaf() any {
	if c11SymLeaves {
		return ndScalarNN()
	}
	c11Counter++
	return c11Counter
}

func c11Tree(d int) any {
	if d <= 0 {
		return c11Leaf()
	}
	switch ndChoice(3) {
	case 0:
		return c11Leaf()
	case 1:
		m := map[string]any{}
		for _, k := range []string{"a", "b"} {
			if ndChoice(2) == 1 {
				m[k] = c11Tree(d - 1)
			}
		}
		switch ndChoice(3) {
		case 1:
			m["$output"] = true
		case 2:
			m["$output"] = false
		}
		return m
	default:
		l := []any{}
		n := ndChoice(3)
		mark := ndChoice(3)
		front := mark != 0 && ndChoice(2) == 1
		mk := func() any {
			if mark == 1 {
				return map[string]any{"$output": true}
			}
			return map[string]any{"$output": false}
		}
		if front {
			l = append(l, mk())
		}
		for i := 0; i < n; i++ {
			e := c11Tree(d - 1)
			// an entry that is exactly {$output: b} would be a second list
			// marker, not a marked (empty) map: not in the domain
			vAssume(!c11IsMarkerEntry(e))
			l = append(l, e)
		}
		if mark != 0 && !front {
			l = append(l, mk())
		}
		return l
	}
}

func c11Eval(docs []any) ([]any, error) {
	p, err := New()
	if err != nil {
		return nil, err
	}
	for i, d := range docs {
		if err := p.MergeDocument(NewDocumentWithData("d"+string(rune('0'+i)), vCopy(d))); err != nil {
			return nil, err
		}
	}
	return p.OutputDocuments()
}

func c11Check(docs []any) { c11CheckX(docs, true) }

func c11CheckX(docs []any, excludeKnown bool) {
	want := []any{}
	// (C11-R1, a marked map that is a direct list entry, was repaired in
	// /repo: such inputs are asserted like any other)
	_ = excludeKnown
	for i, d := range docs {
		vObserve("doc"+string(rune('0'+i)), d)
		want = append(want, c11Outs(d)...)
	}
	got, err := c11Eval(docs)
	vAssert("C11.noerror", err == nil)
	vObserve("got", got)
	vObserve("want", want)
	for _, g := range got {
		vAssert("C11.nomarker", c11NoMarker(g))
	}
	if len(want) == 0 {
		vCover("out.none")
	} else if len(want) > 1 {
		vCover("out.multi")
	} else {
		vCover("out.one")
	}
	vAssert("C11.outputs", c11MultisetEq(got, want))
	// "in a fixed order": which order is not documented, but it is a function
	// of the input alone - a second evaluation with every map range of the
	// evaluator reversed yields the same sequence
	vOrderGlobal(1)
	got2, err2 := c11Eval(docs)
	vOrderGlobal(0)
	vAssert("C11.order.fixed", err2 == nil && vEq(got2, got))
}

// HarnessC11_dupmarkers: a list that carries its marker entry more than once
// (layering produces this: the upper layer repeats the marker of the list it
// appends to) behaves like the list with the marker once: every marker entry
// is the list's own marker, none of them is an element.
func HarnessC11_dupmarkers() {
	b := ndChoice(2) == 1
	mk := func() any { return map[string]any{"$output": b} }
	e1, e2 := c11Tree(1), c11Tree(1)
	vAssume(!c11IsMarkerEntry(e1) && !c11IsMarkerEntry(e2))
	var dup, single []any
	switch ndChoice(4) {
	case 0:
		dup = []any{mk(), mk(), e1, e2}
	case 1:
		dup = []any{mk(), e1, mk(), e2}
	case 2:
		dup = []any{e1, mk(), e2, mk(), mk()}
	default:
		dup = []any{mk(), e1, e2, mk()}
	}
	single = []any{mk(), vCopy(e1), vCopy(e2)}
	w := ndChoice(2)
	mkDoc := func(l []any) any {
		if w == 0 {
			return map[string]any{"keep": 0, "l": l}
		}
		return map[string]any{"$output": false, "h": map[string]any{"l": l, "x": 0}}
	}
	vObserve("dup", dup)
	got, err := c11Eval([]any{mkDoc(dup)})
	want, err2 := c11Eval([]any{mkDoc(single)})
	vAssert("C11.dupmarkers.noerror", err == nil && err2 == nil)
	vObserve("got", got)
	vObserve("want", want)
	vAssert("C11.dupmarkers.same", vEq(got, want))
	for _, g := range got {
		vAssert("C11.dupmarkers.nomarker", c11NoMarker(g))
	}
	vCover("dupmarkers.checked")
}

// HarnessC11_output: one document, map-rooted, depth <= 2 (quick) / 3 (thorough).
func HarnessC11_output() {
	if vTier() > 0 {
		// thorough: depth 3 along one branch: a root map (marked true,
		// false or not at all) over a depth-2 subtree and a depth-1 subtree
		root := map[string]any{"a": c11Tree(2), "b": c11Tree(1)}
		switch ndChoice(3) {
		case 1:
			root["$output"] = true
		case 2:
			root["$output"] = false
		}
		c11Check([]any{root})
		return
	}
	c11Check([]any{c11Tree(2)})
}

// HarnessC11_stream: two documents (depth <= 2 and <= 1); a whole document may be hidden.
func HarnessC11_stream() {
	c11Check([]any{c11Tree(2), c11Tree(1)})
}

// HarnessC11_witness: C11-R1.
func HarnessC11_witness() {
	c11CheckX([]any{map[string]any{"l": []any{map[string]any{"$output": true, "a": 1}}}}, false)
}

// HarnessC11_symleaf: depth <= 2 with symbolic-kind scalar leaves.
func HarnessC11_symleaf() {
	c11SymLeaves = true
	if vTier() == 0 {
		c11Check([]any{c11Tree(1), c11Tree(1)})
		return
	}
	c11Check([]any{c11Tree(2)})
}

// HarnessC11_spine: a chain of four nested containers (maps or lists), each
// with a marker true / false / none and a sibling leaf: selections inside
// selections inside hidden subtrees and the other way round, deeper than the
// full trees of HarnessC11_output reach.
func HarnessC11_spine() {
	var build func(level int) any
	build = func(level int) any {
		if level == 4 {
			return c11Leaf()
		}
		mark := ndChoice(3)
		if ndChoice(2) == 0 {
			m := map[string]any{"a": build(level + 1), "b": c11Leaf()}
			switch mark {
			case 1:
				m["$output"] = true
			case 2:
				m["$output"] = false
			}
			return m
		}
		l := []any{}
		switch mark {
		case 1:
			l = append(l, map[string]any{"$output": true})
		case 2:
			l = append(l, map[string]any{"$output": false})
		}
		inner := build(level + 1)
		vAssume(!c11IsMarkerEntry(inner))
		return append(l, inner, c11Leaf())
	}
	c11Check([]any{build(0)})
}
