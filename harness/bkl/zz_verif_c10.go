//go:build verif

package bkl

func init() {
	vRegister("HarnessC10_inline", HarnessC10_inline)
	vRegister("HarnessC10_cross", HarnessC10_cross)
	vRegister("HarnessC10_dangling", HarnessC10_dangling)
}

func c10EvalDocs(docs []any) ([]any, error) {
	p, err := New()
	if err != nil {
		return nil, err
	}
	for i, d := range docs {
		if err := p.MergeDocument(NewDocumentWithData("d"+string(rune('0'+i)), d)); err != nil {
			return nil, err
		}
	}
	return p.OutputDocuments()
}

// c10Local: the host's own content.
func c10Local() map[string]any {
	m := map[string]any{}
	for _, k := range keysAB {
		if ndChoice(2) == 1 {
			m[k] = ndScalarNN()
		}
	}
	return m
}

// c10Compare evaluates the referencing stream and the hand-inlined twin and
// asserts they agree (error status and outputs).
func c10Compare(ref, twin []any, twinFails bool) {
	for i := range ref {
		vObserve("ref"+string(rune('0'+i)), ref[i])
	}
	gotRef, errRef := c10EvalDocs(ref)
	vObserve("errRef", errRef != nil)
	if twinFails {
		// the inline merge itself is rejected (useless override, kind clash):
		// the reference must be rejected as well
		vCover("inline.mergefails")
		vAssert("C10.reject", errRef != nil)
		return
	}
	for i := range twin {
		vObserve("twin"+string(rune('0'+i)), twin[i])
	}
	gotTwin, errTwin := c10EvalDocs(twin)
	vObserve("errTwin", errTwin != nil)
	vAssert("C10.status", (errRef == nil) == (errTwin == nil))
	if errRef == nil {
		vCover("inline.accepted")
		vObserve("gotRef", gotRef)
		vObserve("gotTwin", gotTwin)
		vAssert("C10.same", vEq(gotRef, gotTwin))
	} else {
		vCover("inline.rejected")
	}
}

// HarnessC10_inline: same-document references in every spelling.
//   doc = { t: {x: T, "p.q": T2}, h: HOST, o: 1 }
func HarnessC10_inline() {
	d := 1
	if vTier() > 0 {
		d = 2
	}
	T := ndTree(d, keysAB, 1, ndScalarNN)
	T2 := ndScalarNN()
	// the name of the key that holds the target is EVERY lower-case letter
	// (a symbolic byte): prefix handling of "$merge:<path>" / "$replace:<path>"
	// must not depend on how the path starts
	tk := ndStrN(1, "lower")
	vAssume(vAnd(tk != "h", tk != "o"))
	mkDoc := func(host any) map[string]any {
		m := map[string]any{"h": host, "o": 1}
		m[tk] = map[string]any{"x": vCopy(T), "p.q": T2}
		return m
	}
	var host, inlined any
	twinFails := false
	local := c10Local()
	form := ndChoice(9)
	// the reference target: t.x (dotted string / list path) or t."p.q" (list path only)
	target := T
	switch form {
	case 0: // map host, $merge with dotted string path
		h := vCopy(local).(map[string]any)
		h["$merge"] = tk + ".x"
		host = h
	case 1: // map host, $merge with list path
		h := vCopy(local).(map[string]any)
		h["$merge"] = []any{tk, "x"}
		host = h
	case 2: // map host, list path through a key containing a dot
		h := vCopy(local).(map[string]any)
		h["$merge"] = []any{tk, "p.q"}
		host = h
		target = T2
	case 3: // map host, $replace (local content is dropped)
		h := vCopy(local).(map[string]any)
		h["$replace"] = tk + ".x"
		host = h
	case 4: // string host $merge:
		host = "$merge:" + tk + ".x"
	case 5: // string host $replace:
		host = "$replace:" + tk + ".x"
	case 6: // list host with a {$merge} entry: target must be a list
		host = []any{"l0", map[string]any{"$merge": tk + ".x"}}
	case 7: // list host with a {$replace} entry
		host = []any{"l0", map[string]any{"$replace": tk + ".x"}}
	default: // string host, path in YAML flow-list form
		host = "$merge:[" + tk + ", x]"
	}
	switch form {
	case 0, 1, 2:
		m, err := merge(vCopy(local), vCopy(target))
		if err != nil {
			twinFails = true
		}
		inlined = m
		vCover("form.mapmerge")
	case 3, 4, 5, 7, 8:
		inlined = vCopy(target)
		vCover("form.replace")
	case 6:
		m, err := merge([]any{"l0"}, vCopy(target))
		if err != nil {
			twinFails = true
		}
		inlined = m
		vCover("form.listmerge")
	}
	ref := mkDoc(host)
	twin := mkDoc(inlined)
	c10Compare([]any{ref}, []any{twin}, twinFails)
	// the referenced subtree itself is left unchanged
	if !twinFails {
		aloneDoc := map[string]any{}
		aloneDoc[tk] = map[string]any{"x": vCopy(T), "p.q": T2}
		alone, errAlone := c10EvalDocs([]any{aloneDoc})
		both, errBoth := c10EvalDocs([]any{mkDoc(host)})
		if errAlone == nil && errBoth == nil {
			a := alone[0].(map[string]any)
			b := both[0].(map[string]any)
			vAssert("C10.target.unchanged", vEq(a[tk], b[tk]))
		}
	}
}

// HarnessC10_cross: cross-document references ($match/$path map form and
// [pattern, path...] list form) in a stream of two or three documents.
func HarnessC10_cross() {
	// variant 0: targets before the host, plain; 1: the target documents
	// carry a root-level reference of their own; 2: additionally the host
	// comes first (forward reference). Variants 1-2 use a flat target.
	variant := ndChoice(3)
	var T any
	if variant == 0 {
		T = ndTree(1, keysAB, 1, ndScalarNN)
	} else {
		T = map[string]any{"a": ndScalarNN()}
	}
	local := c10Local()
	ids := []any{1, 2, 3}
	ndocs := 2 + ndChoice(2)
	// which ids the other documents carry: possibly a duplicate or none
	want := ids[ndChoice(3)]
	others := []any{}
	matches := 0
	ownMerge := variant >= 1
	hostFirst := variant == 2
	for i := 0; i < ndocs-1; i++ {
		id := ids[ndChoice(3)]
		if id == want {
			matches++
		}
		// the target sits two levels down; a literal key "t.u" next to it
		// must not be mistaken for the dotted path
		o := map[string]any{"id": id, "t": map[string]any{"u": vCopy(T)}, "t.u": "decoy"}
		if ownMerge {
			// the document has a reference of its own at its root, next to
			// its keys (it still matches patterns on those keys)
			o["$merge"] = "x"
			o["x"] = map[string]any{"e": 1}
		}
		others = append(others, o)
	}
	var host any
	form := ndChoice(4)
	// $path as a dotted string or as a list
	var path any = "t.u"
	if ndChoice(2) == 1 {
		path = []any{"t", "u"}
	}
	switch form {
	case 0:
		h := vCopy(local).(map[string]any)
		h["$merge"] = map[string]any{"$match": map[string]any{"id": want}, "$path": path}
		host = h
	case 1:
		h := vCopy(local).(map[string]any)
		h["$merge"] = []any{map[string]any{"id": want}, "t", "u"}
		host = h
	case 2:
		host = map[string]any{"$replace": map[string]any{"$match": map[string]any{"id": want}, "$path": path}}
	default:
		host = map[string]any{"$replace": []any{map[string]any{"id": want}, "t", "u"}}
	}
	refDocs := append(vCopy(others).([]any), map[string]any{"h": host})
	if hostFirst {
		// a forward reference: the host comes before the documents it refers to
		refDocs = append([]any{map[string]any{"h": host}}, vCopy(others).([]any)...)
	}
	for i := range refDocs {
		vObserve("ref"+string(rune('0'+i)), refDocs[i])
	}
	if matches != 1 {
		// a pattern that matches no document, or more than one, is an error
		vCover("cross.ambiguous")
		_, err := c10EvalDocs(refDocs)
		vAssert("C10.cross.reject", err != nil)
		return
	}
	vCover("cross.unique")
	var inlined any
	twinFails := false
	if form < 2 {
		m, err := merge(vCopy(local), vCopy(T))
		if err != nil {
			twinFails = true
		}
		inlined = m
	} else {
		inlined = vCopy(T)
	}
	twinDocs := append(vCopy(others).([]any), map[string]any{"h": inlined})
	if hostFirst {
		twinDocs = append([]any{map[string]any{"h": inlined}}, vCopy(others).([]any)...)
	}
	c10Compare(refDocs, twinDocs, twinFails)
}

// HarnessC10_dangling: a reference that resolves to nothing is an error.
func HarnessC10_dangling() {
	T := ndTree(1, keysAB, 1, ndScalarNN)
	paths := []any{"zz", "t.zz", "t.x.zz.y", []any{"t", "zz"}, []any{"t.x"}, "o.x"}
	p := paths[ndChoice(len(paths))]
	var host any
	good := func() any { return map[string]any{"$merge": "lst"} }
	control := false
	switch ndChoice(9) {
	case 8:
		// control: the same setting with good references only is accepted
		host = []any{"local", good(), good()}
		control = true
	case 4:
		// several list-form references in one list: the failing one first,
		// in the middle, last; next to local entries
		host = []any{map[string]any{"$merge": p}, good()}
	case 5:
		host = []any{"local", good(), map[string]any{"$merge": p}, good()}
	case 6:
		host = []any{good(), map[string]any{"$merge": p}}
	case 7:
		// the failing reference is a cross-document pattern (no match /
		// several matches), followed by a good one
		pat := map[string]any{"$match": map[string]any{"kind": []any{"nomatch", "dup"}[ndChoice(2)]}, "$path": "lst"}
		host = []any{map[string]any{"$merge": pat}, good()}
	case 0:
		host = map[string]any{"$merge": p, "a": 1}
	case 1:
		host = map[string]any{"$replace": p}
	case 2:
		if s, ok := p.(string); ok {
			host = "$merge:" + s
		} else {
			host = map[string]any{"$merge": p}
		}
	default:
		host = []any{map[string]any{"$merge": p}}
	}
	doc := map[string]any{"t": map[string]any{"x": T}, "h": host, "o": 1, "lst": []any{"g1", "g2"}}
	vObserve("doc", doc)
	_, err := c10EvalDocs([]any{doc, map[string]any{"kind": "dup", "lst": []any{1}}, map[string]any{"kind": "dup", "lst": []any{2}}})
	if control {
		vAssert("C10.dangling.control", err == nil)
		vCover("dangling.control")
		return
	}
	vAssert("C10.dangling", err != nil)
	vCover("dangling.checked")
}
