//go:build verif

package bkl

// Metamorphic checks over the "directive soup" of C08 (every directive key,
// with an argument of arbitrary kind, at arbitrary positions of a small
// document, alone or as the upper of two layers): inputs nobody designed for
// the property at hand. The oracles need no reference model:
//   C07: a successful evaluation emits no marker;
//   C09: the result is the same under every map iteration order;
//   C19: output is repeatable and leaves the stored documents untouched.

func init() {
	vRegister("HarnessC07_soup", HarnessC07_soup)
	vRegister("HarnessC09_soup", HarnessC09_soup)
	vRegister("HarnessC19_soup", HarnessC19_soup)
}

// soupLayers: the C08 soup; thorough adds a second directive in the same
// document.
func soupLayers() []any {
	dir := c08Dirs[ndChoice(len(c08Dirs))]
	arg := c08Arg()
	doc := c08Place(dir, arg).(map[string]any)
	if vTier() > 0 && ndChoice(2) == 1 {
		dir2 := []string{"$merge", "$replace", "$encode", "$output", "$repeat"}[ndChoice(5)]
		doc["k"] = map[string]any{dir2: []any{"a", `$"{a}"`, "json", true, 2}[ndChoice(5)], "a": 2}
	}
	vObserve("doc", doc)
	if ndChoice(2) == 0 {
		return []any{doc}
	}
	return []any{map[string]any{"a": map[string]any{"x": 2, "w": 1}, "l": []any{0}, "h": map[string]any{"q": 1}}, doc}
}

func HarnessC07_soup() {
	vSetEnv("X=1")
	layers := soupLayers()
	outs, err := c06Eval(layers...)
	if err != nil {
		vCover("soup.error")
		return
	}
	vCover("soup.output")
	vObserve("outs", outs)
	for _, o := range outs {
		vAssert("C07.soup.clean", c07Clean(o))
	}
}

func HarnessC09_soup() {
	vSetEnv("X=1")
	layers := soupLayers()
	vOrderMode(false)
	refOuts, refErr := c09Eval(layers)
	runs := 3
	if vIsNative() {
		runs = 100
	}
	for r := 0; r < runs; r++ {
		vOrderGlobal(1 + r%3)
		outs, isErr := c09Eval(layers)
		vOrderGlobal(0)
		vAssert("C09.soup.status", isErr == refErr)
		if !isErr {
			vAssert("C09.soup.output", vEq(outs, refOuts))
		}
	}
	if refErr {
		vCover("soup.error")
	} else {
		vCover("soup.output")
	}
}

func HarnessC19_soup() {
	vSetEnv("X=1")
	layers := soupLayers()
	p, _ := New()
	var prev *Document
	for i, l := range layers {
		d := NewDocumentWithData("s"+string(rune('0'+i)), vCopy(l))
		if prev != nil {
			d.AddParents(prev)
		}
		if p.MergeDocument(d) != nil {
			vCover("soup.error")
			return
		}
		prev = d
	}
	before := c19Docs(p)
	a := c19Out(p)
	vAssert("C19.soup.docs.unchanged", vEq(before, c19Docs(p)))
	vOrderGlobal(1)
	b := c19Out(p)
	vOrderGlobal(0)
	vAssert("C19.soup.repeatable.status", a.err == b.err)
	if !a.err {
		vAssert("C19.soup.repeatable.output", vEq(a.outs, b.outs))
		vCover("soup.output")
	} else {
		vCover("soup.error")
	}
	vAssert("C19.soup.docs.unchanged2", vEq(before, c19Docs(p)))
}
