//go:build verif

package bkl

import "fmt"

func init() {
	vRegister("HarnessC12_doc", HarnessC12_doc)
	vRegister("HarnessC12_nested", HarnessC12_nested)
	vRegister("HarnessC12_named", HarnessC12_named)
	vRegister("HarnessC12_badcount", HarnessC12_badcount)
	vRegister("HarnessC12_scopes", HarnessC12_scopes)
}

// c12Count: a symbolic int in [-1, max]; returns it together with the
// concrete number of copies it stands for on this path.
func c12Count(max int) (int, int) {
	n := ndInt()
	vAssume(vAnd(n >= -1, n <= max))
	k := 0
	for k < n {
		k++
	}
	return n, k
}

// c12Body: a document body that uses the index as a value, inside an
// interpolation and inside a key. idx < 0 builds the template form.
func c12Body(idx int, c any) map[string]any {
	if idx < 0 {
		return map[string]any{"v": "$repeat", "s": `$"x{$repeat}y"`, `$"k{$repeat}"`: 1, "c": c,
			// the index once more through a path reference to the field
			// that holds the bare $repeat (value and key)
			"w": `$"w{v}"`, `$"j{v}"`: 2}
	}
	return map[string]any{"v": idx, "s": fmt.Sprintf("x%dy", idx), fmt.Sprintf("k%d", idx): 1, "c": c,
		"w": fmt.Sprintf("w%d", idx), fmt.Sprintf("j%d", idx): 2}
}

// HarnessC12_doc: document-level $repeat: n, map and list documents,
// optionally with an upper layer that overrides the count.
func HarnessC12_doc() {
	n, k := c12Count(5 + 7*vTier())
	c := ndScalarNN()
	var layers []any
	listDoc := ndChoice(2) == 1
	if listDoc {
		layers = []any{[]any{map[string]any{"$repeat": n}, "$repeat", `$"i{$repeat}"`, c}}
		vCover("repeat.listdoc")
	} else if ndChoice(2) == 1 {
		// the count comes from an upper layer
		base := c12Body(-1, c)
		base["$repeat"] = 99 // never equal to n (an equal value would be a useless override)
		layers = []any{base, map[string]any{"$repeat": n}}
		vCover("repeat.override")
	} else {
		d := c12Body(-1, c)
		d["$repeat"] = n
		layers = []any{d}
	}
	vObserve("layers", layers)
	got, err := c06Eval(layers...)
	vAssert("C12.doc.accepted", err == nil)
	want := []any{}
	for i := 0; i < k; i++ {
		if listDoc {
			want = append(want, []any{i, fmt.Sprintf("i%d", i), c})
		} else {
			want = append(want, c12Body(i, c))
		}
	}
	vObserve("got", got)
	vObserve("want", want)
	vAssert("C12.doc.count", len(got) == k)
	vAssert("C12.doc.copies", vEq(got, want))
	if k == 0 {
		vCover("repeat.zero")
	} else {
		vCover("repeat.some")
	}
}

// HarnessC12_nested: $repeat inside a list entry and inside a map entry.
func HarnessC12_nested() {
	n, k := c12Count(4 + 6*vTier())
	c := ndScalarNN()
	inList := ndChoice(2) == 1
	var doc, want map[string]any
	if !inList && ndChoice(2) == 1 {
		// a repeated map entry under a PLAIN key: every copy lands on the
		// same key, the last one stays; no copy, no key
		doc = map[string]any{"m": map[string]any{"z": 0, "side": map[string]any{"$repeat": n, "v": "$repeat", "c": c}}}
		m := map[string]any{"z": 0}
		if k > 0 {
			m["side"] = map[string]any{"v": k - 1, "c": c}
		}
		want = map[string]any{"m": m}
		vCover("nested.map")
	} else if inList {
		doc = map[string]any{"l": []any{"first", map[string]any{"$repeat": n, "v": "$repeat", "s": `$"x{$repeat}"`, "c": c}, "last"}}
		l := []any{"first"}
		for i := 0; i < k; i++ {
			l = append(l, map[string]any{"v": i, "s": fmt.Sprintf("x%d", i), "c": c})
		}
		l = append(l, "last")
		want = map[string]any{"l": l}
		vCover("nested.list")
	} else {
		doc = map[string]any{"m": map[string]any{"z": 0, `$"e{$repeat}"`: map[string]any{"$repeat": n, "v": "$repeat", "c": c}}}
		m := map[string]any{"z": 0}
		for i := 0; i < k; i++ {
			m[fmt.Sprintf("e%d", i)] = map[string]any{"v": i, "c": c}
		}
		want = map[string]any{"m": m}
		vCover("nested.map")
	}
	vObserve("doc", doc)
	got, err := c06Eval(doc)
	vAssert("C12.nested.accepted", err == nil)
	vAssert("C12.nested.one", len(got) == 1)
	vObserve("got", got[0])
	vObserve("want", want)
	vAssert("C12.nested.copies", vEq(got[0], want))
}

// HarnessC12_named: a map of named counts gives the cartesian product, each
// combination once, in lexicographic order of the names.
func HarnessC12_named() {
	max := 2
	if vTier() > 0 {
		max = 4
	}
	n1, k1 := c12Count(max)
	n2, k2 := c12Count(max)
	three := vTier() > 0 && ndChoice(2) == 1
	counts := map[string]any{"x": n1, "y": n2}
	k3 := 1
	if three {
		n3, kk := c12Count(2)
		counts["a"] = n3
		k3 = kk
	}
	doc := map[string]any{"$repeat": counts, "p": `$"{$repeat:x}-{$repeat:y}"`}
	if three {
		doc["q"] = `$"{$repeat:a}"`
	}
	vObserve("doc", doc)
	got, err := c06Eval(doc)
	vAssert("C12.named.accepted", err == nil)
	want := []any{}
	// lexicographic order of names: a, x, y - the first name varies slowest
	for a := 0; a < k3; a++ {
		for x := 0; x < k1; x++ {
			for y := 0; y < k2; y++ {
				w := map[string]any{"p": fmt.Sprintf("%d-%d", x, y)}
				if three {
					w["q"] = fmt.Sprintf("%d", a)
				}
				want = append(want, w)
			}
		}
	}
	vObserve("got", got)
	vObserve("want", want)
	vAssert("C12.named.product", vEq(got, want))
	vCover("named.checked")
}

// HarnessC12_badcount: a count that is not an integer is an error.
func HarnessC12_badcount() {
	v := ndScalarNN() // a null count is dropped like any null entry: no $repeat at all
	if _, isInt := v.(int); isInt {
		vAssume(false)
	}
	var doc any
	switch ndChoice(5) {
	case 3:
		// named counts: the bad one after (in name order) a good one of
		// any value, zero included
		n, _ := c12Count(2)
		doc = map[string]any{"$repeat": map[string]any{"a": n, "b": v}, "p": 1}
	case 4:
		n, _ := c12Count(2)
		m, _ := c12Count(1)
		doc = map[string]any{"$repeat": map[string]any{"a": m, "b": v, "c": n}, "p": 1}
	case 0:
		doc = map[string]any{"$repeat": v, "a": 1}
	case 1:
		doc = map[string]any{"l": []any{map[string]any{"$repeat": v, "a": 1}}}
	default:
		doc = map[string]any{"m": map[string]any{"e": map[string]any{"$repeat": v, "a": 1}}}
	}
	vObserve("doc", doc)
	_, err := c06Eval(doc)
	vAssert("C12.badcount", err != nil)
	vCover("badcount.checked")
}

// HarnessC12_scopes: a repeat nested inside another repeat. The inner
// expansion must not disturb the outer binding: uses of the outer index that
// are evaluated before AND after the inner repeat see the outer value.
func HarnessC12_scopes() {
	n, kn := c12Count(2 + 2*vTier())
	m, km := c12Count(2 + vTier())
	innerList := ndChoice(2) == 1
	// the body of one outer copy; idx < 0 = template form
	body := func(idx int) map[string]any {
		b := map[string]any{}
		if idx < 0 {
			b["a"] = "$repeat"
			b["z"] = `$"o{$repeat}"`
			if innerList {
				b["l"] = []any{map[string]any{"$repeat": m, "i": "$repeat"}}
			} else {
				b["m"] = map[string]any{`$"e{$repeat}"`: map[string]any{"$repeat": m, "i": "$repeat"}}
			}
			return b
		}
		b["a"] = idx
		b["z"] = fmt.Sprintf("o%d", idx)
		if innerList {
			l := []any{}
			for j := 0; j < km; j++ {
				l = append(l, map[string]any{"i": j})
			}
			b["l"] = l
		} else {
			mm := map[string]any{}
			for j := 0; j < km; j++ {
				mm[fmt.Sprintf("e%d", j)] = map[string]any{"i": j}
			}
			b["m"] = mm
		}
		return b
	}
	var doc any
	var want []any
	switch ndChoice(3) {
	case 0: // outer at document level
		d := body(-1)
		d["$repeat"] = n
		doc = d
		for i := 0; i < kn; i++ {
			want = append(want, body(i))
		}
		vCover("scopes.doc")
	case 1: // outer as a list entry
		d := body(-1)
		d["$repeat"] = n
		doc = map[string]any{"outer": []any{d}}
		l := []any{}
		for i := 0; i < kn; i++ {
			l = append(l, body(i))
		}
		want = []any{map[string]any{"outer": l}}
		vCover("scopes.list")
	default: // outer as a map entry with an interpolated key
		d := body(-1)
		d["$repeat"] = n
		doc = map[string]any{"outer": map[string]any{`$"p{$repeat}"`: d}}
		mm := map[string]any{}
		for i := 0; i < kn; i++ {
			mm[fmt.Sprintf("p%d", i)] = body(i)
		}
		want = []any{map[string]any{"outer": mm}}
		vCover("scopes.map")
	}
	vObserve("doc", doc)
	got, err := c06Eval(doc)
	vAssert("C12.scopes.accepted", err == nil)
	if want == nil {
		want = []any{}
	}
	vObserve("got", got)
	vObserve("want", want)
	vAssert("C12.scopes.copies", vEq(got, want))
}
