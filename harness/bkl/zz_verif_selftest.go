//go:build verif

package bkl

import (
	"fmt"
	"path/filepath"
	"regexp"
	"slices"
	"sort"
	"strings"
	"unicode"

	"golang.org/x/exp/utf8string"
)

func init() { vRegister("HarnessSelf_models", HarnessSelf_models) }

var selfREs = []*regexp.Regexp{
	regexp.MustCompile(`(?s)\$"(.*)"$`),
	regexp.MustCompile(`^\$"(.*)"$`),
	regexp.MustCompile(`\{(.*?)\}`),
	regexp.MustCompile(`\$(\w+)|\$\{(\w+)\}`),
	regexp.MustCompile(`a*`),
	regexp.MustCompile(`(?i)\bE(?P<n>[a-z]*)\b`),
	regexp.MustCompile(`[^.:/]+`),
	regexp.MustCompile(`(?m)^\s*(\S)?`),
	regexp.MustCompile(`(a|ab)(c|bcd)?`),
	regexp.MustCompile(`\$\$`),
	regexp.MustCompile(`.é|é.`),
}

var selfStrings = []string{"", "$", "$$", "a$$b", "$$$", "$$$$", `$"x{a}y"`, "$merge:a.b", "a.b.c", "x:y:z", "é$é", "$é", "$Éa", "k=v=w", "/a/b.c/d.e", "a/b/", "{a}{b}", "abcd e_E x", "$FOO ${bar}", "$\"a\nb\"", "aab$\"x\"", "{a", "a}", "{}{", "$env:X", "s p"}

// HarnessSelf_models: differential self-test of the engine's string models.
// s is a SYMBOLIC string pinned to a concrete value by an assumption, so the
// call on s goes through the symbolic model while the call on the constant
// goes through the real library function; both must agree.
func HarnessSelf_models() {
	c := selfStrings[ndChoice(len(selfStrings))]
	s := ndStrN(len(c), "any")
	vAssume(s == c)
	chk := func(id string, ok bool) { vAssert("self."+id, ok) }
	chk("ReplaceAll", strings.ReplaceAll(s, "$$", "$") == strings.ReplaceAll(c, "$$", "$"))
	chk("Replace1", strings.Replace(s, "$", "$$", 1) == strings.Replace(c, "$", "$$", 1))
	chk("ReplaceEsc", strings.ReplaceAll(s, "$", "$$") == strings.ReplaceAll(c, "$", "$$"))
	chk("HasPrefix", strings.HasPrefix(s, `$"`) == strings.HasPrefix(c, `$"`))
	chk("HasSuffix", strings.HasSuffix(s, `"`) == strings.HasSuffix(c, `"`))
	chk("TrimPrefix", strings.TrimPrefix(s, "$merge:") == strings.TrimPrefix(c, "$merge:"))
	chk("TrimSuffix", strings.TrimSuffix(s, `"`) == strings.TrimSuffix(c, `"`))
	chk("Contains", strings.Contains(s, "$$") == strings.Contains(c, "$$"))
	chk("Count", strings.Count(s, ".") == strings.Count(c, "."))
	chk("Split", len(strings.Split(s, ".")) == len(strings.Split(c, ".")))
	chk("SplitJoin", strings.Join(strings.Split(s, ":"), "|") == strings.Join(strings.Split(c, ":"), "|"))
	chk("SplitN", strings.Join(strings.SplitN(s, "=", 2), "|") == strings.Join(strings.SplitN(c, "=", 2), "|"))
	chk("Concat", "a"+s+"b" == "a"+c+"b")
	chk("Less", (s < "a.b") == (c < "a.b"))
	chk("Sprintf", fmt.Sprintf("%s.%s|%v", s, "x", s) == fmt.Sprintf("%s.%s|%v", c, "x", c))
	chk("Ext", filepath.Ext(s) == filepath.Ext(c))
	chk("Base", filepath.Base(s) == filepath.Base(c))
	us, uc := utf8string.NewString(s), utf8string.NewString(c)
	chk("RuneCount", us.RuneCount() == uc.RuneCount())
	if uc.RuneCount() >= 2 {
		chk("At0", us.At(0) == uc.At(0))
		chk("At1", us.At(1) == uc.At(1))
		chk("IsLower", unicode.IsLower(us.At(1)) == unicode.IsLower(uc.At(1)))
	}
	out := interpRE.ReplaceAllStringFunc(s, func(m string) string { return "<" + m + ">" })
	chk("Regexp", out == interpRE.ReplaceAllStringFunc(c, func(m string) string { return "<" + m + ">" }))
	sp, cp := strings.Split(s, "."), strings.Split(c, ".")
	chk("slices.Contains", slices.Contains(sp, "b") == slices.Contains(cp, "b"))
	chk("slices.Index", slices.Index(sp, "c") == slices.Index(cp, "c"))
	sort.Slice(sp, func(i, j int) bool { return sp[i] > sp[j] })
	sort.Slice(cp, func(i, j int) bool { return cp[i] > cp[j] })
	chk("sort.Slice", strings.Join(sp, "|") == strings.Join(cp, "|"))
	slices.Sort(sp)
	slices.Sort(cp)
	chk("slices.Sort", strings.Join(sp, "|") == strings.Join(cp, "|"))
	slices.Reverse(sp)
	slices.Reverse(cp)
	chk("slices.Equal", slices.Equal(sp, cp))
	chk("Sprint", fmt.Sprint(s, 1, 2, "x", s) == fmt.Sprint(c, 1, 2, "x", c))
	chk("Sprintln", fmt.Sprintln(s, 1) == fmt.Sprintln(c, 1))
	for i, re := range selfREs {
		id := fmt.Sprintf("re%d.", i)
		chk(id+"Match", re.MatchString(s) == re.MatchString(c))
		chk(id+"Find", re.FindString(s) == re.FindString(c))
		chk(id+"Sub", strings.Join(re.FindStringSubmatch(s), "|") == strings.Join(re.FindStringSubmatch(c), "|"))
		chk(id+"SubNil", (re.FindStringSubmatch(s) == nil) == (re.FindStringSubmatch(c) == nil))
		chk(id+"Idx", fmt.Sprintf("%v", re.FindStringSubmatchIndex(s)) == fmt.Sprintf("%v", re.FindStringSubmatchIndex(c)))
		chk(id+"All", strings.Join(re.FindAllString(s, -1), "|") == strings.Join(re.FindAllString(c, -1), "|"))
		chk(id+"AllIdx", fmt.Sprintf("%v", re.FindAllStringIndex(s, -1)) == fmt.Sprintf("%v", re.FindAllStringIndex(c, -1)))
		chk(id+"Repl", re.ReplaceAllString(s, "<$1|${0}>") == re.ReplaceAllString(c, "<$1|${0}>"))
		chk(id+"ReplLit", re.ReplaceAllLiteralString(s, "#") == re.ReplaceAllLiteralString(c, "#"))
		wrap := func(m string) string { return "<" + m + ">" }
		chk(id+"ReplFunc", re.ReplaceAllStringFunc(s, wrap) == re.ReplaceAllStringFunc(c, wrap))
		chk(id+"Split", strings.Join(re.Split(s, -1), "|") == strings.Join(re.Split(c, -1), "|"))
	}
	vCover("self.checked")
}
