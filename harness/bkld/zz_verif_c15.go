//go:build verif

package main

import (
	"github.com/gopatchy/bkl"
)

func init() {
	vRegister("HarnessC15_maps", HarnessC15_maps)
	vRegister("HarnessC15_lists", HarnessC15_lists)
	vRegister("HarnessC15_longlists", HarnessC15_longlists)
	vRegister("HarnessC15_kinds", HarnessC15_kinds)
	vRegister("HarnessC15_witness", HarnessC15_witness)
}

var keysAB = []string{"a", "b"}

// c15Apply evaluates base + layer the way `bkl base layer` does and returns
// the single output document.
func c15Apply(base, layer any) (any, error) {
	p, err := bkl.New()
	if err != nil {
		return nil, err
	}
	if err := p.MergeDocument(bkl.NewDocumentWithData("base", base)); err != nil {
		return nil, err
	}
	if layer != nil {
		if err := p.MergeDocument(bkl.NewDocumentWithData("layer", layer)); err != nil {
			return nil, err
		}
	}
	outs, err := p.OutputDocuments()
	if err != nil {
		return nil, err
	}
	if len(outs) != 1 {
		return nil, bkl.ErrExtraEntries
	}
	return outs[0], nil
}

func c15Check(base, target any) { c15CheckX(base, target, true) }

func c15CheckX(base, target any, excludeKnown bool) {
	vObserve("base", base)
	vObserve("target", target)
	// The four regions C15-R1..R4 were known findings; they were repaired in
	// /repo (see known_findings.json), so pairs inside them are asserted like
	// any other. The region predicate is kept to show that they are reached.
	if region := vDiffRegion(base, target); region != "" {
		vCover("was." + region)
	}
	_ = excludeKnown
	layer, err := diffDoc(bkl.NewDocumentWithData("t", vCopy(target)), bkl.NewDocumentWithData("b", vCopy(base)))
	vAssert("C15.differr", err == nil)
	vObserve("layer", layer)
	same := vEq(base, target)
	if same {
		vCover("diff.same")
		vAssert("C15.emptydiff", layer == nil)
	} else {
		vCover("diff.changed")
	}
	got, aerr := c15Apply(vCopy(base), layer)
	vObserve("accepted", aerr == nil)
	vAssert("C15.accepted", aerr == nil)
	vObserve("got", got)
	vAssert("C15.roundtrip", vEq(got, target))
}

// HarnessC15_maps: all pairs of maps with scalar / one-level map values.
func HarnessC15_maps() {
	c15Tokens()
	if vTier() > 0 {
		base := ndMap(2, keysAB, 0, ndScalarNN)
		target := ndMap(2, keysAB, 0, ndScalarNN)
		c15Check(base, target)
		return
	}
	// quick: key "a" holds a scalar, a flat map or []; key "b" absent or scalar
	mk := func() map[string]any {
		m := map[string]any{}
		if ndChoice(2) == 1 {
			m["a"] = ndTree(1, keysAB, 0, ndScalarNN)
		}
		if ndChoice(2) == 1 {
			m["b"] = ndScalarNN()
		}
		return m
	}
	c15Check(mk(), mk())
}

// c15Tokens: string leaves include texts that print like a number or a
// bool, so that "5" vs 5 and "true" vs true are among the compared pairs.
func c15Tokens() { vSetTokens("s0", "1", "true", "s3") }

func c15Entry() any {
	switch ndChoice(3) {
	case 0:
		return ndScalarNN()
	case 1:
		return map[string]any{"a": ndScalarNN()}
	default:
		return map[string]any{"a": ndScalarNN(), "b": ndScalarNN()}
	}
}

// HarnessC15_lists: a list under one key on both sides.
func HarnessC15_lists() {
	c15Tokens()
	lb, lt := 2, 2
	longer := vTier() > 0 && ndChoice(2) == 1
	if longer {
		lb, lt = 2, 3
	}
	mk := func(max int) []any {
		n := ndChoice(max + 1)
		l := []any{}
		for i := 0; i < n; i++ {
			if longer {
				// thorough: longer target, entries scalar | {a}
				if ndChoice(2) == 0 {
					l = append(l, ndScalarNN())
				} else {
					l = append(l, map[string]any{"a": ndScalarNN()})
				}
				continue
			}
			l = append(l, c15Entry())
		}
		return l
	}
	base := map[string]any{"l": mk(lb), "k": "s0"}
	target := map[string]any{"l": mk(lt), "k": "s0"}
	c15Check(base, target)
}

// HarnessC15_longlists: longer lists of scalars (base <= 2, target <= 4
// entries; thorough 3 / 5): every pattern of repeated, kept, dropped,
// reordered and appended entries, duplicates of base entries included.
func HarnessC15_longlists() {
	c15Tokens()
	lb, lt := 2, 4
	if vTier() > 0 {
		lb, lt = 3, 4
	}
	mk := func(max int) []any {
		n := ndChoice(max + 1)
		l := []any{}
		for i := 0; i < n; i++ {
			l = append(l, ndScalarNN())
		}
		return l
	}
	base := map[string]any{"l": mk(lb)}
	target := map[string]any{"l": mk(lt)}
	c15Check(base, target)
}

// HarnessC15_kinds: the kind matrix at one key.
func HarnessC15_kinds() {
	c15Tokens()
	gen := func() any {
		switch ndChoice(5) {
		case 0:
			return ndScalarNN()
		case 1:
			return map[string]any{}
		case 2:
			return map[string]any{"a": ndScalarNN()}
		case 3:
			return []any{}
		default:
			return []any{ndScalarNN()}
		}
	}
	base := map[string]any{"x": gen(), "k": "s0"}
	target := map[string]any{"x": gen(), "k": "s0"}
	c15Check(base, target)
}

// HarnessC15_witness: the concrete witnesses of the known findings (replayed
// natively by every run; see /verif/known_findings.json).
func HarnessC15_witness() {
	var base, target any
	switch ndChoice(4) {
	case 0: // C15-R1: reorder gives an empty diff
		base = map[string]any{"l": []any{1, 2}}
		target = map[string]any{"l": []any{2, 1}}
	case 1: // C15-R2: removed entry is a subset of a kept one: $delete over-deletes
		base = map[string]any{"l": []any{map[string]any{"a": 1}, map[string]any{"a": 1, "b": 2}}}
		target = map[string]any{"l": []any{map[string]any{"a": 1, "b": 2}}}
	case 2: // C15-R3: non-empty map becomes a scalar: bkl rejects the layer
		base = map[string]any{"x": map[string]any{"a": 1}}
		target = map[string]any{"x": 5}
	default: // C15-R4: two identical removed entries: the second $delete hits nothing
		base = map[string]any{"l": []any{map[string]any{"a": 1}, map[string]any{"a": 1}}}
		target = map[string]any{"l": []any{}}
	}
	c15CheckX(base, target, false)
}
