//go:build verif

package main

import (
	"github.com/gopatchy/bkl"
)

func init() {
	vRegister("HarnessC16_pair", HarnessC16_pair)
	vRegister("HarnessC16_lists", HarnessC16_lists)
	vRegister("HarnessC16_self", HarnessC16_self)
	vRegister("HarnessC16_three", HarnessC16_three)
	vRegister("HarnessC16_witness", HarnessC16_witness)
}

var keysAB = []string{"a", "b"}

// c16Common: every value in res occurs at the same path in every input, or
// is $required where all inputs define the path. Lists are compared as
// bkli treats them: an entry of the result list must occur (deep-equal) in
// every input list.
func c16Common(res any, inputs []any) bool {
	if s, ok := res.(string); ok && s == "$required" {
		for _, in := range inputs {
			if in == nil {
				return false
			}
		}
		return true
	}
	switch r := res.(type) {
	case map[string]any:
		for k, rv := range r {
			sub := []any{}
			for _, in := range inputs {
				im, ok := in.(map[string]any)
				if !ok {
					return false
				}
				iv, has := im[k]
				if !has {
					return false
				}
				sub = append(sub, iv)
			}
			if !c16Common(rv, sub) {
				return false
			}
		}
		return true
	case []any:
		for _, rv := range r {
			if s, ok := rv.(string); ok && s == "$required" {
				continue
			}
			for _, in := range inputs {
				il, ok := in.([]any)
				if !ok || !vListIn(il, rv) {
					return false
				}
			}
		}
		for _, in := range inputs {
			if _, ok := in.([]any); !ok {
				return false
			}
		}
		return true
	}
	for _, in := range inputs {
		if !vEq(in, res) {
			return false
		}
	}
	return true
}

// c16Maximal: nothing shared is dropped: a map key present in all inputs is
// present in the result (with $required if the values differ), recursively.
func c16Maximal(res any, inputs []any) bool {
	allMaps := true
	for _, in := range inputs {
		if _, ok := in.(map[string]any); !ok {
			allMaps = false
		}
	}
	if !allMaps {
		return true
	}
	rm, ok := res.(map[string]any)
	if !ok {
		return false
	}
	first := inputs[0].(map[string]any)
	for k := range first {
		sub := []any{}
		inAll := true
		for _, in := range inputs {
			iv, has := in.(map[string]any)[k]
			if !has {
				inAll = false
				break
			}
			sub = append(sub, iv)
		}
		if !inAll {
			continue
		}
		rv, has := rm[k]
		if !has {
			return false
		}
		if !c16Maximal(rv, sub) {
			return false
		}
	}
	return true
}

func c16Apply(base, layer any) (any, error) {
	p, err := bkl.New()
	if err != nil {
		return nil, err
	}
	if err := p.MergeDocument(bkl.NewDocumentWithData("base", base)); err != nil {
		return nil, err
	}
	if layer != nil {
		if err := p.MergeDocument(bkl.NewDocumentWithData("layer", layer)); err != nil {
			return nil, err
		}
	}
	outs, err := p.OutputDocuments()
	if err != nil {
		return nil, err
	}
	if len(outs) != 1 {
		return nil, bkl.ErrExtraEntries
	}
	return outs[0], nil
}

// specIntersect: the documented intersection of two null-free documents:
// maps keep their common keys; equal scalars stay; differing values (or
// kinds) at a common path become $required; a list keeps the entries of a
// that also occur in b (as a multiset), or is [$required] when nothing is shared.
func specIntersect(a, b any) any {
	switch av := a.(type) {
	case map[string]any:
		bm, ok := b.(map[string]any)
		if !ok {
			return "$required"
		}
		r := map[string]any{}
		for k, v := range av {
			if bv, has := bm[k]; has {
				r[k] = specIntersect(v, bv)
			}
		}
		return r
	case []any:
		bl, ok := b.([]any)
		if !ok {
			return "$required"
		}
		// multiset intersection in the order of a; an empty result is marked
		// $required unless both lists are empty
		r := []any{}
		used := make([]bool, len(bl))
		for _, x := range av {
			for j, y := range bl {
				if !used[j] && vEq(x, y) {
					used[j] = true
					r = append(r, vCopy(x))
					break
				}
			}
		}
		if len(r) == 0 && (len(av) > 0 || len(bl) > 0) {
			r = append(r, "$required")
		}
		return r
	}
	if vEq(a, b) {
		return a
	}
	return "$required"
}

func specFold(inputs []any) any {
	doc := vCopy(inputs[0])
	for _, in := range inputs[1:] {
		doc = specIntersect(in, doc)
	}
	return doc
}

// c16ListRegion: known findings of bkli's own list handling, evaluated on
// the values found at a common path in all inputs.
//   C16-R1  a list with a repeated entry, or lists that are all empty
//           (intersection not idempotent: [1,1]∩[1,1]=[1,1,1,1], []∩[]=[$required])
//   C16-R3  lists whose shared entries stand in a different relative order
//           (the result follows the argument order)
func c16ListRegion(inputs []any) string {
	lists := []([]any){}
	for _, in := range inputs {
		if l, ok := in.([]any); ok {
			lists = append(lists, l)
		}
	}
	if len(lists) == len(inputs) && len(lists) > 0 {
		// (C16-R1, repeated entries and all-empty lists, was repaired in
		// /repo; those inputs are asserted like any other)
		for _, l := range lists[1:] {
			// shared entries in the order of lists[0] vs in the order of l
			x := []any{}
			for _, e := range lists[0] {
				if vListIn(l, e) {
					x = append(x, e)
				}
			}
			y := []any{}
			for _, e := range l {
				if vListIn(lists[0], e) {
					y = append(y, e)
				}
			}
			if !vEq(x, y) {
				return "C16-R3"
			}
		}
		return ""
	}
	maps := 0
	for _, in := range inputs {
		if _, ok := in.(map[string]any); ok {
			maps++
		}
	}
	if maps == len(inputs) && maps > 0 {
		for k := range inputs[0].(map[string]any) {
			sub := []any{}
			for _, in := range inputs {
				if v, has := in.(map[string]any)[k]; has {
					sub = append(sub, v)
				}
			}
			if len(sub) == len(inputs) {
				if r := c16ListRegion(sub); r != "" {
					return r
				}
			}
		}
	}
	return ""
}

func c16Fold(inputs []any) (any, error) {
	// the left fold of cmd/bkli main: doc = intersect(next, doc)
	var doc any = vCopy(inputs[0])
	for _, in := range inputs[1:] {
		var err error
		doc, err = intersect(vCopy(in), doc)
		if err != nil {
			return nil, err
		}
	}
	return doc, nil
}

// c16Tokens: string leaves include texts that print like an int / a bool.
func c16Tokens() { vSetTokens("s0", "1", "true", "s3") }

func c16Check(inputs []any, excludeKnown bool) {
	for i, in := range inputs {
		vObserve("input"+string(rune('0'+i)), in)
	}
	// inside the region of known finding C16-R3 only the argument-order
	// assertion is withheld; everything else (model, commonality, maximality,
	// the bkld round trip per input) is asserted there as well
	inR3 := false
	if r := c16ListRegion(inputs); r != "" && excludeKnown {
		vCover("known." + r)
		inR3 = true
	}
	want := specFold(inputs)
	base, err := c16Fold(inputs)
	vAssert("C16.noerror", err == nil)
	vObserve("base", base)
	vAssert("C16.model", vEq(base, want))
	vAssert("C16.common", c16Common(base, inputs))
	vAssert("C16.maximal", c16Maximal(base, inputs))
	// argument order does not matter
	rev := []any{}
	for i := len(inputs) - 1; i >= 0; i-- {
		rev = append(rev, inputs[i])
	}
	base2, err2 := c16Fold(rev)
	if !inR3 {
		vAssert("C16.order", err2 == nil && vEq(base2, base))
	}
	// migrate workflow: base + bkld(base, input) evaluates to input; pairs
	// (base, input) inside a C15 known-finding region of bkld are skipped
	for i, in := range inputs {
		// (pairs inside bkld's former regions C15-R1..R4 are no longer skipped)
		layer, derr := diffDoc(bkl.NewDocumentWithData("t", vCopy(in)), bkl.NewDocumentWithData("b", vCopy(base)))
		vAssert("C16.differr", derr == nil)
		got, aerr := c16Apply(vCopy(base), layer)
		if i == 0 {
			vObserve("layer0", layer)
			vObserve("got0", got)
		}
		vAssert("C16.accepted", aerr == nil)
		vAssert("C16.roundtrip", vEq(got, in))
		vCover("c16.roundtrip")
	}
	vCover("c16.checked")
}

// HarnessC16_pair: two inputs, maps of depth <= 2.
func HarnessC16_pair() {
	c16Tokens()
	if vTier() > 0 {
		// thorough: a map of depth <= 2 against a flat map, in both
		// argument orders (lists: [] only; lists with entries are
		// HarnessC16_lists' subject)
		a := ndMap(2, keysAB, 0, ndScalarNN)
		b := ndMap(1, keysAB, 0, ndScalarNN)
		if ndChoice(2) == 1 {
			c16Check([]any{b, a}, true)
		} else {
			c16Check([]any{a, b}, true)
		}
		return
	}
	// quick: key "a" holds a scalar, a flat map or a list of <= 1 entry;
	// key "b" is absent or a scalar
	mk := func() map[string]any {
		m := map[string]any{}
		if ndChoice(2) == 1 {
			m["a"] = ndTree(1, keysAB, 1, ndScalarNN)
		}
		if ndChoice(2) == 1 {
			m["b"] = ndScalarNN()
		}
		return m
	}
	c16Check([]any{mk(), mk()}, true)
}

// HarnessC16_lists: two inputs holding a list of scalars under the same key
// (<= 2 entries each, thorough 3): every pattern of shared, repeated and
// reordered entries.
func HarnessC16_lists() {
	c16Tokens()
	L := 2
	if vTier() > 0 {
		L = 3
	}
	mk := func() map[string]any {
		n := ndChoice(L + 1)
		l := []any{}
		for i := 0; i < n; i++ {
			l = append(l, ndScalarNN())
		}
		return map[string]any{"l": l, "k": "s0"}
	}
	c16Check([]any{mk(), mk()}, true)
}

// HarnessC16_self: intersecting a document with itself returns it.
func HarnessC16_self() {
	c16Tokens()
	a := ndMap(3, keysAB, 2, ndScalarNN)
	if r := c16ListRegion([]any{a, a}); r != "" {
		vCover("known." + r)
		vAssume(false)
	}
	got, err := intersect(vCopy(a), vCopy(a))
	vObserve("input", a)
	vObserve("got", got)
	vAssert("C16.self", err == nil && vEq(got, a))
	vCover("c16.checked")
}

// HarnessC16_three: three inputs of depth <= 1.
func HarnessC16_three() {
	c16Tokens()
	a := ndMap(1, keysAB, 0, ndScalarNN)
	b := ndMap(1, keysAB, 0, ndScalarNN)
	c := ndMap(1, keysAB, 0, ndScalarNN)
	c16Check([]any{a, b, c}, true)
}

// HarnessC16_witness: concrete witnesses of the known findings.
func HarnessC16_witness() {
	switch ndChoice(3) {
	case 0: // C16-R1: repeated entry: [1,1] with itself gives [1,1,1,1]
		a := map[string]any{"l": []any{1, 1}}
		got, _ := intersect(vCopy(a), vCopy(a))
		vAssert("C16.self", vEq(got, a))
	case 1: // C16-R1: [] with [] gives [$required]
		a := map[string]any{"l": []any{}}
		got, _ := intersect(vCopy(a), vCopy(a))
		vAssert("C16.self", vEq(got, a))
	default: // C16-R2: differing lists: the round trip inherits bkld's list defects
		a := map[string]any{"l": []any{1, 2}}
		b := map[string]any{"l": []any{2, 1}}
		c16Check([]any{a, b}, false)
	}
}
