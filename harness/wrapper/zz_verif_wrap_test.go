//go:build verif

package wrapper

import (
	"encoding/json"
	"os"
	"testing"
)

// TestVerifWrapChild runs the real WrapOrDie in this (child) process.
func TestVerifWrapChild(t *testing.T) {
	cmd := os.Getenv("VERIF_WRAP_CMD")
	if cmd == "" {
		t.Skip("not a wrapper child")
	}
	var args []string
	json.Unmarshal([]byte(os.Getenv("VERIF_WRAP_ARGS")), &args)
	os.Args = append([]string{"bklb"}, args...)
	WrapOrDie(cmd)
}
