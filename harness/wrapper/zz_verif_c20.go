//go:build verif

package wrapper

import (
	"github.com/gopatchy/bkl"
)

func init() {
	vRegister("HarnessC20_args", HarnessC20_args)
}

// c20Expected: what the file written for a resolvable argument must hold:
// the evaluated layers of realPath in the format of the named extension.
func c20Expected(arg string) (string, bool) {
	realPath, f, err := bkl.FileMatch(arg)
	if err != nil {
		return "", false
	}
	p, err := bkl.New()
	if err != nil {
		return "", false
	}
	if err := p.MergeFileLayers(realPath); err != nil {
		return "", false
	}
	out, err := p.Output(f)
	if err != nil {
		return "", false
	}
	return string(out), true
}

// HarnessC20_args: the wrapped program is run with the same arguments in the
// same order; arguments naming a bkl-resolvable file are replaced by a file
// holding the evaluated layers in the format of the named extension; all
// others arrive byte for byte; if any evaluation fails the program is not run.
func HarnessC20_args() {
	vfsReset()
	vfsAddFile("a.yaml", map[string]any{"x": 1})
	vfsAddFile("a.b.yaml", map[string]any{"y": 2})
	vfsAddFile("plain.txt", map[string]any{})
	vfsAddFile("bad.yaml", map[string]any{"r": "$required"})
	vfsAddFile("c.yml", map[string]any{"z": 3})
	n := 1 + ndChoice(3)
	if vTier() > 0 {
		n = ndChoice(5)
	}
	args := []string{}
	kinds := []int{}
	anyFail := false
	for i := 0; i < n; i++ {
		k := ndChoice(11)
		var a string
		switch k {
		case 0:
			// every flag-like argument "-", "-x", "--", "-o=", "-.y" ...
			// (too short to carry a supported extension)
			a = "-" + ndStr(2, "set:-=.fy")
		case 1:
			a = "--opt=value.yaml.x"
		case 2:
			// every printable word of up to two bytes, the empty argument included
			a = ndStr(2, "print")
		case 3:
			a = "plain.txt" // existing file, unsupported extension
		case 4:
			a = "a.b.yaml" // existing layer file
		case 5:
			a = "a.b.json" // virtual name: another supported extension
		case 6:
			a = "nothere.yaml" // supported extension, no such layer
		case 9:
			a = "c.yml" // existing layer file under the .yml extension
		case 10:
			a = "c.toml" // virtual name whose only real file is c.yml
		case 7:
			a = "bad.yaml" // evaluation fails
			anyFail = true
		default:
			// every short alphanumeric name, optionally with a supported
			// extension, that does not name a layer: must arrive unchanged
			stem := ndStr(2, "alnum")
			vAssume(vAnd(stem != "a", vAnd(stem != "bad", stem != "c")))
			a = stem
			if ndChoice(2) == 1 {
				a = stem + ".toml"
			}
		}
		args = append(args, a)
		kinds = append(kinds, k)
	}
	found := ndChoice(4) != 0
	code, argv, contents := vRunWrapper("tool", found, args...)
	vObserve("args", args)
	vObserve("code", code)
	if !found {
		vAssert("C20.notfound", code != -1 && code != 0)
		vCover("wrap.notfound")
		return
	}
	if anyFail {
		vAssert("C20.notrun", code != -1)
		vAssert("C20.failstatus", code != 0)
		vCover("wrap.evalfails")
		return
	}
	vAssert("C20.exec", code == -1)
	vAssert("C20.argc", len(argv) == n+1)
	vAssert("C20.argv0", argv[0] == "tool")
	for i := 0; i < n; i++ {
		got := argv[i+1]
		switch kinds[i] {
		case 4, 5, 9, 10:
			want, ok := c20Expected(args[i])
			vAssert("C20.expected", ok)
			vAssert("C20.replaced", got != args[i])
			vAssert("C20.content", contents[i+1] == want)
			vCover("wrap.replaced")
		default:
			vAssert("C20.passthrough", got == args[i])
			vAssert("C20.nowrite", contents[i+1] == "")
			vCover("wrap.passthrough")
		}
	}
}
