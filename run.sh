#!/bin/sh
# Entry point of every registered check: (re)build the engine if needed and
# run it. The engine loads /repo's current working tree (go/packages + go/ssa)
# on every run; nothing about /repo is cached.
cd /verif || exit 2
export GOFLAGS=-mod=mod GOPROXY=off GOTOOLCHAIN=local PATH=/opt/veriftools/go1.26.8/bin:$PATH
unset GOSUMDB
if [ ! -x bin/bklsym ] || [ -n "$(find engine -name '*.go' -newer bin/bklsym 2>/dev/null | head -1)" ]; then
  (cd engine && go build -o ../bin/bklsym ./cmd/bklsym) || { echo "engine build failed" >&2; exit 2; }
fi
exec bin/bklsym "$@"
