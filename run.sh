#!/bin/sh
# Entry point of every registered check: (re)build the engine and run it.
# The engine loads /repo's current working tree (go/packages + go/ssa) on
# every run; nothing about /repo is cached. The engine also links /repo's
# build (only for the third-party codec boundary), so it is rebuilt whenever
# /repo or the engine changed (go build is incremental).
cd "$(dirname "$0")" || exit 2
VERIF_DIR=$(pwd); export VERIF_DIR
export GOFLAGS=-mod=mod GOPROXY=off GOTOOLCHAIN=local PATH=/opt/veriftools/go1.26.8/bin:$PATH
unset GOSUMDB
mkdir -p bin
if [ -n "$BKLSYM_REPO" ] && [ "$BKLSYM_REPO" != /repo ]; then
	# a run against another tree (tools/seedtest.sh): link THAT tree's codec
	# boundary, through an alternative module file; /repo is not involved
	alt=$(mktemp -d /tmp/bklsym-alt-XXXXXX)
	trap 'rm -rf "$alt"' EXIT
	sed "s|=> /repo\$|=> $BKLSYM_REPO|" engine/go.mod > "$alt/go.mod"
	cp engine/go.sum "$alt/go.sum"
	(cd engine && go build -modfile="$alt/go.mod" -o "$alt/bklsym" ./cmd/bklsym) || { echo "engine build failed" >&2; exit 2; }
	"$alt/bklsym" "$@"
	exit $?
fi
(cd engine && go build -o ../bin/bklsym ./cmd/bklsym) || { echo "engine build failed" >&2; exit 2; }
exec bin/bklsym "$@"
