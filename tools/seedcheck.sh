#!/bin/bash
# usage: seedcheck.sh <seeded-id> [property]   - run the property's quick check against a scratch copy of /repo
# with seeded/<id>/patch.diff applied (no demo, no suite): regression check that a recorded seed is still caught.
ID=$1; PROP=${2:-${ID%%-*}}
S=$(mktemp -d /tmp/seedcheck-XXXXXX); trap 'rm -rf "$S"' EXIT
rsync -a --exclude .git /repo/ "$S/"
(cd "$S" && patch -p1 -s --fuzz=3 < /verif/seeded/$ID/patch.diff) || { echo "$ID PATCH-FAILED"; exit 2; }
out=$(BKLSYM_REPO="$S" timeout 1500 /verif/run.sh check -property "$PROP" -tier quick 2>/dev/null | grep -cE "^VIOLATION")
echo "$ID ($PROP): violations=$out"
