#!/bin/bash
# usage: seedrun.sh <seeded-id> <pkg> <harness> [-order]
# runs ONE harness against a scratch copy of /repo with seeded/<id>/patch.diff applied
S=$(mktemp -d /tmp/seedrun-XXXXXX); trap 'rm -rf "$S"' EXIT
rsync -a --exclude .git /repo/ "$S/"; (cd "$S" && patch -p1 -s < /verif/seeded/$1/patch.diff) || exit 2
BKLSYM_REPO="$S" timeout 1500 /verif/bin/bklsym run -pkg "$2" -harness "$3" $4 2>&1 | grep -E "^harness|confirmed=true" | sort | uniq -c | sort -rn | head -3
