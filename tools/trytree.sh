#!/bin/bash
# usage: trytree.sh [patch.diff]   — copy /repo's working tree to a scratch dir, optionally apply a patch,
# run the pinned suite (go test ./...) and the repo's expected-output script ./test, then remove the copy.
set -o pipefail
export GOFLAGS=-mod=mod GOPROXY=off; unset GOSUMDB
S=$(mktemp -d /tmp/trytree-XXXXXX)
trap 'rm -rf "$S"' EXIT
rsync -a --exclude .git /repo/ "$S/"
cd "$S" || exit 2
if [ -n "$1" ]; then patch -p1 -s < "$1" || { echo PATCH-FAILED; exit 2; }; fi
go build ./... || { echo BUILD-FAILED; exit 1; }
go test -vet=off -count=1 ./... 2>&1 | tail -8
rc1=${PIPESTATUS[0]}
./test >/tmp/trytree-test.log 2>&1
rc2=$?
echo "go test rc=$rc1 ; ./test rc=$rc2 ($(grep -c PASS /tmp/trytree-test.log) PASS)"
[ $rc2 -ne 0 ] && tail -20 /tmp/trytree-test.log
exit $((rc1+rc2))
