#!/bin/bash
# usage: seedtest.sh <seed-dir> <property> [demo-target-dir]
#   seed-dir: directory holding patch.diff and demo_test.go (e.g. /tmp/seed-C01/seed)
# 1. in a scratch copy of /repo: the patch applies, the build and the pinned suite pass with it,
#    the demonstration fails with it and passes without it;
# 2. the patch is applied to /repo, the property's quick check is run, and the patch is undone.
set -o pipefail
export GOFLAGS=-mod=mod GOPROXY=off; unset GOSUMDB
SEED=$1; PROP=$2; DEMODIR=${3:-.}
S=$(mktemp -d /tmp/seedtest-XXXXXX)
trap 'rm -rf "$S"' EXIT
rsync -a --exclude .git /repo/ "$S/"
cd "$S" || exit 2
cp "$SEED/demo_test.go" "$S/$DEMODIR/zz_seed_demo_test.go"
echo "== demo WITHOUT patch"
go test -vet=off -count=1 -run 'Seed|Demo|C[0-9][0-9]' ./$DEMODIR/ 2>&1 | tail -3; r0=${PIPESTATUS[0]}
patch -p1 -s < "$SEED/patch.diff" || { echo PATCH-FAILED; exit 2; }
echo "== build + pinned suite WITH patch (demo excluded)"
mv "$S/$DEMODIR/zz_seed_demo_test.go" /tmp/zz_seed_demo_test.go.$$
go build ./... && go test -vet=off -count=1 ./... 2>&1 | grep -v "no test files" | tail -3; r1=${PIPESTATUS[0]}
mv /tmp/zz_seed_demo_test.go.$$ "$S/$DEMODIR/zz_seed_demo_test.go"
echo "== demo WITH patch"
go test -vet=off -count=1 -run 'Seed|Demo|C[0-9][0-9]' ./$DEMODIR/ 2>&1 | tail -3; r2=${PIPESTATUS[0]}
echo "demo-without rc=$r0 (want 0)  suite-with rc=$r1 (want 0)  demo-with rc=$r2 (want !=0)"
cd /
echo "== check $PROP on the patched scratch copy (BKLSYM_REPO=$S; /repo is not touched)"
rm -f "$S/$DEMODIR/zz_seed_demo_test.go"
BKLSYM_REPO="$S" timeout 1500 /verif/run.sh check -property "$PROP" -tier quick 2>/tmp/seedtest-check.err | grep -v "^KNOWN-FINDING" | tail -5
rc=${PIPESTATUS[0]}
grep -E "^confirmed|discrepancy|INCONCLUSIVE" /tmp/seedtest-check.err | head -5
echo "check exit=$rc"
