#!/bin/bash
# run every property's thorough tier once, each harness capped, and print one summary line per harness
cd "$(dirname "$0")/.." || exit 2
export BKLSYM_BUDGET_MIN=${BKLSYM_BUDGET_MIN:-15}
for p in "$@"; do
  echo "=== $p $(date +%H:%M:%S)"
  ./run.sh check -property $p -tier thorough 2>&1 | grep -E "^Harness|reason|PASS|INCONCLUSIVE|VIOLATION|VACUOUS" | cut -c1-220
done
