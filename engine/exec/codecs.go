package exec

import (
	"encoding/json"
	"go/token"
	"go/types"

	"github.com/gopatchy/bkl"
	"golang.org/x/tools/go/ssa"
)

// Codec boundary. bkl's seven stream codec wrappers (json/yaml/toml
// MarshalStream / UnmarshalStream) sit directly on third-party
// encoders/decoders. They are not interpreted: with concrete arguments the
// real function of the linked /repo build is called; symbolic arguments are
// not supported here (see the C14 models). This boundary is listed as a stub
// in the evidence of every property whose harness reaches it.

var codecFormat = map[string][2]string{
	"jsonMarshalStream":       {"json", "m"},
	"jsonMarshalStreamPretty": {"json-pretty", "m"},
	"yamlMarshalStream":       {"yaml", "m"},
	"tomlMarshalStream":       {"toml", "m"},
	"jsonUnmarshalStream":     {"json", "u"},
	"yamlUnmarshalStream":     {"yaml", "u"},
	"tomlUnmarshalStream":     {"toml", "u"},
}

func (m *Machine) codecStub(fn *ssa.Function) (func(args []value) value, bool) {
	if fn.Pkg == nil || fn.Pkg.Pkg.Path() != m.shared.RootPath {
		return nil, false
	}
	spec, ok := codecFormat[fn.Name()]
	if !ok {
		return nil, false
	}
	f, err := bkl.GetFormat(spec[0])
	if err != nil {
		return nil, false
	}
	if spec[1] == "m" {
		return func(args []value) value {
			m.foreign["bkl."+fn.Name()+" (codec boundary, native)"]++
			n, ok := m.toNative(args[0])
			if !ok {
				unsupported("codec %s on symbolic data", fn.Name())
			}
			docs, _ := n.([]any)
			out, err := f.MarshalStream(docs)
			if err != nil {
				return tuple{[]value(nil), m.mkErr(err.Error(), false)}
			}
			bs := make([]value, len(out))
			for i, b := range out {
				bs[i] = b
			}
			return tuple{bs, iface{}}
		}, true
	}
	return func(args []value) value {
		m.foreign["bkl."+fn.Name()+" (codec boundary, native)"]++
		if op, isOp := args[0].(opaque); isOp && op.kind == "filebytes" {
			// a virtual file: reading and decoding yield its logical documents
			return tuple{m.vfileDocs(op.payload.(*fileBytes)), iface{}}
		}
		in, ok := args[0].([]value)
		if !ok {
			unsupported("codec %s: input %T", fn.Name(), args[0])
		}
		bs := make([]byte, len(in))
		for i, b := range in {
			c, ok := b.(uint8)
			if !ok {
				unsupported("codec %s on symbolic bytes", fn.Name())
			}
			bs[i] = c
		}
		docs, err := f.UnmarshalStream(bs)
		if err != nil {
			return tuple{[]value(nil), m.mkErr(err.Error(), false)}
		}
		out := make([]value, len(docs))
		for i, d := range docs {
			out[i] = m.fromDecoded(d)
		}
		return tuple{out, iface{}}
	}, true
}

// fromDecoded converts what the decoders hand to normalize().
func (m *Machine) fromDecoded(x any) value {
	switch x := x.(type) {
	case json.Number:
		return iface{m.shared.jsonNumberT, string(x)}
	case map[string]any:
		sm := m.newMap(tString)
		keys := make([]string, 0, len(x))
		for k := range x {
			keys = append(keys, k)
		}
		sortStrings(keys)
		for _, k := range keys {
			m.mapInsert(sm, k, m.fromDecoded(x[k]))
		}
		return iface{tMapSA, sm}
	case []any:
		out := make([]value, len(x))
		for i, e := range x {
			out[i] = m.fromDecoded(e)
		}
		return iface{tSliceA, out}
	case []map[string]any:
		out := make([]value, len(x))
		for i, e := range x {
			out[i] = m.fromDecoded(e).(iface).v
		}
		return iface{types.NewSlice(tMapSA), out}
	case nil, bool, int, int64, float64, string:
		return m.fromNative(x)
	}
	unsupported("decoder produced %T", x)
	return nil
}

var _ = token.NoPos
