package exec

import (
	"go/types"
)

func typesPointer(t types.Type) types.Type { return types.NewPointer(t) }

func universeError() types.Type { return types.Universe.Lookup("error").Type() }

// errTypeForGlobals: dynamic type given to engine error objects that stand
// for package-level error variables of dependencies (set at load time).
var errTypeForGlobals types.Type
