package exec

import (
	"go/types"
)

func typesPointer(t types.Type) types.Type { return types.NewPointer(t) }

func universeError() types.Type { return types.Universe.Lookup("error").Type() }
