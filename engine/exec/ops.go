// Copyright 2013 The Go Authors. All rights reserved.
// Use of this source code is governed by a BSD-style
// license that can be found in the LICENSE file.

package exec

import (
	"fmt"
	"go/constant"
	"go/token"
	"go/types"
	"strings"
	"unsafe"

	"bklsym/sym"

	"golang.org/x/tools/go/ssa"
)

func constValue(c *ssa.Const) value {
	if c.Value == nil {
		return zero(c.Type())
	}
	if t, ok := c.Type().Underlying().(*types.Basic); ok {
		switch t.Kind() {
		case types.Bool, types.UntypedBool:
			return constant.BoolVal(c.Value)
		case types.Int, types.UntypedInt:
			return int(c.Int64())
		case types.Int8:
			return int8(c.Int64())
		case types.Int16:
			return int16(c.Int64())
		case types.Int32, types.UntypedRune:
			return int32(c.Int64())
		case types.Int64:
			return c.Int64()
		case types.Uint:
			return uint(c.Uint64())
		case types.Uint8:
			return uint8(c.Uint64())
		case types.Uint16:
			return uint16(c.Uint64())
		case types.Uint32:
			return uint32(c.Uint64())
		case types.Uint64:
			return c.Uint64()
		case types.Uintptr:
			return uintptr(c.Uint64())
		case types.Float32:
			return float32(c.Float64())
		case types.Float64, types.UntypedFloat:
			return c.Float64()
		case types.Complex64:
			return complex64(c.Complex128())
		case types.Complex128, types.UntypedComplex:
			return c.Complex128()
		case types.String, types.UntypedString:
			if c.Value.Kind() == constant.String {
				return constant.StringVal(c.Value)
			}
			return string(rune(c.Int64()))
		}
	}
	panic(fmt.Sprintf("constValue: %s", c))
}

func zero(t types.Type) value {
	switch t := t.(type) {
	case *types.Basic:
		if t.Kind() == types.UntypedNil {
			panic("untyped nil has no zero value")
		}
		if t.Info()&types.IsUntyped != 0 {
			t = types.Default(t).(*types.Basic)
		}
		switch t.Kind() {
		case types.Bool:
			return false
		case types.Int:
			return int(0)
		case types.Int8:
			return int8(0)
		case types.Int16:
			return int16(0)
		case types.Int32:
			return int32(0)
		case types.Int64:
			return int64(0)
		case types.Uint:
			return uint(0)
		case types.Uint8:
			return uint8(0)
		case types.Uint16:
			return uint16(0)
		case types.Uint32:
			return uint32(0)
		case types.Uint64:
			return uint64(0)
		case types.Uintptr:
			return uintptr(0)
		case types.Float32:
			return float32(0)
		case types.Float64:
			return float64(0)
		case types.Complex64:
			return complex64(0)
		case types.Complex128:
			return complex128(0)
		case types.String:
			return ""
		case types.UnsafePointer:
			return unsafe.Pointer(nil)
		default:
			panic(fmt.Sprint("zero for unexpected type:", t))
		}
	case *types.Pointer:
		return (*value)(nil)
	case *types.Array:
		a := make(array, t.Len())
		for i := range a {
			a[i] = zero(t.Elem())
		}
		return a
	case *types.Named:
		return zero(t.Underlying())
	case *types.Alias:
		return zero(types.Unalias(t))
	case *types.Interface:
		return iface{}
	case *types.Slice:
		return []value(nil)
	case *types.Struct:
		s := make(structure, t.NumFields())
		for i := range s {
			s[i] = zero(t.Field(i).Type())
		}
		return s
	case *types.Tuple:
		if t.Len() == 1 {
			return zero(t.At(0).Type())
		}
		s := make(tuple, t.Len())
		for i := range s {
			s[i] = zero(t.At(i).Type())
		}
		return s
	case *types.Chan:
		return (*value)(nil)
	case *types.Map:
		return (*symMap)(nil)
	case *types.Signature:
		return (*ssa.Function)(nil)
	}
	panic(fmt.Sprint("zero: unexpected ", t))
}

func asInt64(x value) int64 {
	if u, ok := intBits(x); ok {
		return int64(u)
	}
	panic(fmt.Sprintf("cannot convert %T to int64", x))
}

func (m *Machine) slice(x, lo, hi, max value) value {
	var Len, Cap int
	switch x := x.(type) {
	case string:
		Len = len(x)
		Cap = Len
	case symStr:
		Len = len(x.B)
		Cap = Len
	case []value:
		Len = len(x)
		Cap = cap(x)
	case *value:
		a := (*x).(array)
		Len = len(a)
		Cap = cap(a)
	}
	l := int64(0)
	if lo != nil {
		l = m.concretizeInt(lo, 0, 64)
	}
	h := int64(Len)
	if hi != nil {
		h = m.concretizeInt(hi, 0, 64)
	}
	mx := int64(Cap)
	if max != nil {
		mx = m.concretizeInt(max, 0, 64)
	}
	if l < 0 || h < l || mx < h || mx > int64(Cap) {
		panic(targetPanic{msg: fmt.Sprintf("slice bounds out of range [%d:%d:%d] with capacity %d", l, h, mx, Cap)})
	}
	switch x := x.(type) {
	case string:
		return x[l:h]
	case symStr:
		return mkStr(x.B[l:h])
	case []value:
		return x[l:h:mx]
	case *value:
		a := (*x).(array)
		return []value(a)[l:h:mx]
	}
	panic(fmt.Sprintf("slice: unexpected X type: %T", x))
}

func (m *Machine) lookup(instr *ssa.Lookup, x, idx value) value {
	switch x := x.(type) {
	case *symMap:
		v, ok := m.mapLookup(x, idx)
		if !ok {
			v = zero(instr.X.Type().Underlying().(*types.Map).Elem())
		}
		if instr.CommaOk {
			return tuple{v, ok}
		}
		return v
	}
	panic(fmt.Sprintf("unexpected x type in Lookup: %T", x))
}

// ---- binary operators ----

func (m *Machine) binop(op token.Token, t types.Type, x, y value) value {
	if op == token.EQL {
		return m.eqnil(t, x, y)
	}
	if op == token.NEQ {
		return m.notv(m.eqnil(t, x, y))
	}
	// strings
	if isString(x) {
		_, sx := x.(symStr)
		_, sy := y.(symStr)
		if sx || sy {
			return m.strBinop(op, x, y)
		}
		xs, ys := x.(string), y.(string)
		switch op {
		case token.ADD:
			return xs + ys
		case token.LSS:
			return xs < ys
		case token.LEQ:
			return xs <= ys
		case token.GTR:
			return xs > ys
		case token.GEQ:
			return xs >= ys
		}
		panic(fmt.Sprintf("invalid string op %s", op))
	}
	_, sx := x.(symv)
	_, sy := y.(symv)
	if sx || sy {
		return m.symBinop(op, x, y)
	}
	return m.concBinop(op, x, y)
}

func (m *Machine) notv(v value) value {
	switch v := v.(type) {
	case bool:
		return !v
	case symv:
		return m.unsym(m.st.Not(v.T), types.Bool)
	}
	panic("notv")
}

func (m *Machine) concBinop(op token.Token, x, y value) value {
	switch xv := x.(type) {
	case float64:
		yv := y.(float64)
		switch op {
		case token.ADD:
			return xv + yv
		case token.SUB:
			return xv - yv
		case token.MUL:
			return xv * yv
		case token.QUO:
			return xv / yv
		case token.LSS:
			return xv < yv
		case token.LEQ:
			return xv <= yv
		case token.GTR:
			return xv > yv
		case token.GEQ:
			return xv >= yv
		}
	case float32:
		yv := y.(float32)
		switch op {
		case token.ADD:
			return xv + yv
		case token.SUB:
			return xv - yv
		case token.MUL:
			return xv * yv
		case token.QUO:
			return xv / yv
		case token.LSS:
			return xv < yv
		case token.LEQ:
			return xv <= yv
		case token.GTR:
			return xv > yv
		case token.GEQ:
			return xv >= yv
		}
	case bool:
		// only == and != are defined on bools; handled by eqnil
	}
	k, ok := basicKindOf(x)
	if !ok || !isIntKind(k) {
		panic(fmt.Sprintf("invalid binary op: %T %s %T", x, op, y))
	}
	xu, _ := intBits(x)
	yu, ok := intBits(y)
	if !ok {
		panic(fmt.Sprintf("invalid binary op: %T %s %T", x, op, y))
	}
	w := uint8(kindWidth(k))
	signed := kindSigned(k)
	fold := func(o sym.Op) value {
		r, _ := sym.FoldBV(o, w, xu&sym.Mask(w), yu&sym.Mask(w))
		return mkInt(k, uint64(sym.SExtU(r, w, signed)))
	}
	switch op {
	case token.ADD:
		return fold(sym.OAdd)
	case token.SUB:
		return fold(sym.OSub)
	case token.MUL:
		return fold(sym.OMul)
	case token.QUO:
		if yu&sym.Mask(w) == 0 {
			panic(targetPanic{msg: "integer divide by zero"})
		}
		if signed {
			return fold(sym.OSDiv)
		}
		return fold(sym.OUDiv)
	case token.REM:
		if yu&sym.Mask(w) == 0 {
			panic(targetPanic{msg: "integer divide by zero"})
		}
		if signed {
			return fold(sym.OSRem)
		}
		return fold(sym.OURem)
	case token.AND:
		return fold(sym.OBAnd)
	case token.OR:
		return fold(sym.OBOr)
	case token.XOR:
		return fold(sym.OBXor)
	case token.AND_NOT:
		r := (xu &^ yu) & sym.Mask(w)
		return mkInt(k, uint64(sym.SExtU(r, w, signed)))
	case token.SHL, token.SHR:
		ky, _ := basicKindOf(y)
		if kindSigned(ky) && int64(yu) < 0 {
			panic(targetPanic{msg: "negative shift amount"})
		}
		if op == token.SHL {
			r, _ := sym.FoldBV(sym.OShl, w, xu&sym.Mask(w), yu)
			return mkInt(k, uint64(sym.SExtU(r, w, signed)))
		}
		o := sym.OLShr
		if signed {
			o = sym.OAShr
		}
		r, _ := sym.FoldBV(o, w, xu&sym.Mask(w), yu)
		return mkInt(k, uint64(sym.SExtU(r, w, signed)))
	case token.LSS, token.LEQ, token.GTR, token.GEQ:
		var lt, eq bool
		if signed {
			lt, eq = int64(xu) < int64(yu), xu == yu
		} else {
			lt, eq = xu&sym.Mask(w) < yu&sym.Mask(w), xu&sym.Mask(w) == yu&sym.Mask(w)
		}
		switch op {
		case token.LSS:
			return lt
		case token.LEQ:
			return lt || eq
		case token.GTR:
			return !lt && !eq
		default:
			return !lt
		}
	}
	panic(fmt.Sprintf("invalid binary op: %T %s %T", x, op, y))
}

func (m *Machine) symBinop(op token.Token, x, y value) value {
	st := m.st
	k, _ := basicKindOf(x)
	if sv, ok := x.(symv); ok {
		k = sv.K
	} else if sv, ok := y.(symv); ok && op != token.SHL && op != token.SHR {
		k = sv.K
	}
	if k == types.Float64 {
		a, b := m.term(x), m.term(y)
		switch op {
		case token.ADD:
			return m.unsym(st.FAdd(a, b), k)
		case token.SUB:
			return m.unsym(st.FSub(a, b), k)
		case token.MUL:
			return m.unsym(st.FMul(a, b), k)
		case token.QUO:
			return m.unsym(st.FDiv(a, b), k)
		case token.LSS:
			return m.unsym(st.FLt(a, b), types.Bool)
		case token.LEQ:
			return m.unsym(st.FLe(a, b), types.Bool)
		case token.GTR:
			return m.unsym(st.FLt(b, a), types.Bool)
		case token.GEQ:
			return m.unsym(st.FLe(b, a), types.Bool)
		}
		panic(fmt.Sprintf("invalid float op %s", op))
	}
	if !isIntKind(k) {
		panic(fmt.Sprintf("symBinop: kind %v op %s", k, op))
	}
	w := kindWidth(k)
	signed := kindSigned(k)
	a := m.term(x)
	if op == token.SHL || op == token.SHR {
		ky, _ := basicKindOf(y)
		b := m.term(y)
		if kindSigned(ky) {
			if m.decide(st.SLt(b, st.BVC(int(b.Sort.W), 0))) {
				panic(targetPanic{msg: "negative shift amount"})
			}
		}
		// bring the count to the operand width, saturating
		var cnt *sym.Term
		if int(b.Sort.W) > w {
			big := st.ULe(st.BVC(int(b.Sort.W), uint64(w)), b)
			cnt = st.Ite(big, st.BVC(w, uint64(w)), st.Extract(b, w))
		} else {
			cnt = st.ZExt(b, w)
		}
		switch {
		case op == token.SHL:
			return m.unsym(st.Shl(a, cnt), k)
		case signed:
			return m.unsym(st.AShr(a, cnt), k)
		default:
			return m.unsym(st.LShr(a, cnt), k)
		}
	}
	b := m.term(y)
	switch op {
	case token.ADD:
		return m.unsym(st.Add(a, b), k)
	case token.SUB:
		return m.unsym(st.Sub(a, b), k)
	case token.MUL:
		return m.unsym(st.Mul(a, b), k)
	case token.QUO, token.REM:
		if m.decide(st.Eq(b, st.BVC(w, 0))) {
			panic(targetPanic{msg: "integer divide by zero"})
		}
		switch {
		case op == token.QUO && signed:
			return m.unsym(st.SDiv(a, b), k)
		case op == token.QUO:
			return m.unsym(st.UDiv(a, b), k)
		case signed:
			return m.unsym(st.SRem(a, b), k)
		default:
			return m.unsym(st.URem(a, b), k)
		}
	case token.AND:
		return m.unsym(st.BAnd(a, b), k)
	case token.OR:
		return m.unsym(st.BOr(a, b), k)
	case token.XOR:
		return m.unsym(st.BXor(a, b), k)
	case token.AND_NOT:
		return m.unsym(st.BAnd(a, st.BNot(b)), k)
	case token.LSS:
		if signed {
			return m.unsym(st.SLt(a, b), types.Bool)
		}
		return m.unsym(st.ULt(a, b), types.Bool)
	case token.LEQ:
		if signed {
			return m.unsym(st.SLe(a, b), types.Bool)
		}
		return m.unsym(st.ULe(a, b), types.Bool)
	case token.GTR:
		if signed {
			return m.unsym(st.SLt(b, a), types.Bool)
		}
		return m.unsym(st.ULt(b, a), types.Bool)
	case token.GEQ:
		if signed {
			return m.unsym(st.SLe(b, a), types.Bool)
		}
		return m.unsym(st.ULe(b, a), types.Bool)
	}
	panic(fmt.Sprintf("invalid symbolic int op %s", op))
}

func (m *Machine) strBinop(op token.Token, x, y value) value {
	a, _ := m.strTerms(x)
	b, _ := m.strTerms(y)
	switch op {
	case token.ADD:
		return mkStr(append(append([]*sym.Term(nil), a...), b...))
	case token.LSS:
		return m.unsym(m.strLess(a, b, false), types.Bool)
	case token.LEQ:
		return m.unsym(m.strLess(a, b, true), types.Bool)
	case token.GTR:
		return m.unsym(m.strLess(b, a, false), types.Bool)
	case token.GEQ:
		return m.unsym(m.strLess(b, a, true), types.Bool)
	}
	panic(fmt.Sprintf("invalid string op %s", op))
}

// strLess: lexicographic a < b (or <= when orEq) on byte terms.
func (m *Machine) strLess(a, b []*sym.Term, orEq bool) *sym.Term {
	st := m.st
	n := len(a)
	if len(b) < n {
		n = len(b)
	}
	// result when all of the first n bytes are equal
	var tail *sym.Term
	switch {
	case len(a) < len(b):
		tail = st.True()
	case len(a) == len(b):
		tail = st.BoolC(orEq)
	default:
		tail = st.False()
	}
	res := tail
	for i := n - 1; i >= 0; i-- {
		res = st.Ite(st.Eq(a[i], b[i]), res, st.ULt(a[i], b[i]))
	}
	return res
}

func (m *Machine) strEq(a, b []*sym.Term) *sym.Term {
	if len(a) != len(b) {
		return m.st.False()
	}
	cs := make([]*sym.Term, len(a))
	for i := range a {
		cs[i] = m.st.Eq(a[i], b[i])
	}
	return m.st.And(cs...)
}

func (m *Machine) lessTerm(x, y value) *sym.Term {
	if isString(x) {
		a, _ := m.strTerms(x)
		b, _ := m.strTerms(y)
		return m.strLess(a, b, false)
	}
	v := m.binop(token.LSS, nil, x, y)
	return m.term(v)
}

// ---- equality ----

func (m *Machine) eqnil(t types.Type, x, y value) value {
	switch t.Underlying().(type) {
	case *types.Map:
		return (x.(*symMap) != nil) == (y.(*symMap) != nil)
	case *types.Slice:
		return (x.([]value) != nil) == (y.([]value) != nil)
	case *types.Signature:
		return isNilFunc(x) == isNilFunc(y)
	}
	return m.unsym(m.equalsTerm(t, x, y), types.Bool)
}

func isNilFunc(v value) bool {
	switch v := v.(type) {
	case *ssa.Function:
		return v == nil
	case *closure:
		return v == nil
	case *nativeFunc:
		return v == nil
	case *ssa.Builtin:
		return v == nil
	}
	return false
}

// equalsTerm is Go's == for type t as a Bool term. Comparing uncomparable
// dynamic types inside interfaces raises the runtime panic Go raises.
func (m *Machine) equalsTerm(t types.Type, x, y value) *sym.Term {
	st := m.st
	switch xv := x.(type) {
	case bool:
		switch yv := y.(type) {
		case bool:
			return st.BoolC(xv == yv)
		}
		return st.Eq(m.term(x), m.term(y))
	case float64, float32:
		if yv, ok := y.(symv); ok {
			return st.FEq(m.term(x), yv.T)
		}
		if xf, ok := x.(float64); ok {
			return st.BoolC(xf == y.(float64))
		}
		return st.BoolC(x.(float32) == y.(float32))
	case string, symStr:
		if xs, ok := x.(string); ok {
			if ys, ok := y.(string); ok {
				return st.BoolC(xs == ys)
			}
		}
		a, _ := m.strTerms(x)
		b, ok := m.strTerms(y)
		if !ok {
			panic(fmt.Sprintf("equals: string vs %T", y))
		}
		return m.strEq(a, b)
	case symv:
		if xv.K == types.Float64 {
			return st.FEq(xv.T, m.term(y))
		}
		return st.Eq(xv.T, m.term(y))
	case *value:
		return st.BoolC(xv == y.(*value))
	case structure:
		yv := y.(structure)
		ts := t.Underlying().(*types.Struct)
		var cs []*sym.Term
		for i := 0; i < ts.NumFields(); i++ {
			if f := ts.Field(i); f.Name() != "_" {
				cs = append(cs, m.equalsTerm(f.Type(), xv[i], yv[i]))
			}
		}
		return st.And(cs...)
	case array:
		yv := y.(array)
		te := t.Underlying().(*types.Array).Elem()
		var cs []*sym.Term
		for i := range xv {
			cs = append(cs, m.equalsTerm(te, xv[i], yv[i]))
		}
		return st.And(cs...)
	case iface:
		switch yv := y.(type) {
		case iface:
			if !sameType(xv.t, yv.t) {
				return st.False()
			}
			if xv.t == nil {
				return st.True()
			}
			if !types.Comparable(xv.t) {
				panic(targetPanic{msg: fmt.Sprintf("runtime error: comparing uncomparable type %s", xv.t)})
			}
			return m.equalsTerm(xv.t, xv.v, yv.v)
		case symIface:
			return m.scalarEqIface(yv.s, xv)
		}
	case symIface:
		switch yv := y.(type) {
		case iface:
			return m.scalarEqIface(xv.s, yv)
		case symIface:
			return m.scalarEqScalar(xv.s, yv.s)
		}
	case opaque:
		if yo, ok := y.(opaque); ok {
			return st.BoolC(xv.payload == yo.payload)
		}
	case *errObj:
		return st.BoolC(x == y)
	}
	if u, ok := intBits(x); ok {
		if yu, ok := intBits(y); ok {
			return st.BoolC(u == yu)
		}
		return st.Eq(m.term(x), m.term(y))
	}
	panic(targetPanic{msg: fmt.Sprintf("runtime error: comparing uncomparable type %s (%T)", t, x)})
}

func (m *Machine) kindIs(s *symScalar, k int) *sym.Term {
	return m.st.Eq(s.Kind, m.st.BVC(8, uint64(k)))
}

func (m *Machine) scalarEqIface(s *symScalar, y iface) *sym.Term {
	st := m.st
	if y.t == nil {
		return m.kindIs(s, skNil)
	}
	b, ok := y.t.(*types.Basic) // named types are different dynamic types
	if !ok {
		if !types.Comparable(y.t) {
			// Go compares dynamic types first: they differ, so no panic.
			return st.False()
		}
		return st.False()
	}
	switch b.Kind() {
	case types.Bool:
		return st.And(m.kindIs(s, skBool), st.Eq(s.B, m.term(y.v)))
	case types.Int:
		return st.And(m.kindIs(s, skInt), st.Eq(s.I, m.term(y.v)))
	case types.Int64:
		return st.And(m.kindIs(s, skInt64), st.Eq(s.I, m.term(y.v)))
	case types.Float64:
		return st.And(m.kindIs(s, skFloat), st.FEq(s.F, m.term(y.v)))
	case types.String:
		yb, _ := m.strTerms(y.v)
		var alts []*sym.Term
		for i, tok := range m.strTokens {
			tb, _ := m.strTerms(tok)
			alts = append(alts, st.And(st.Eq(s.S, st.BVC(8, uint64(i))), m.strEq(tb, yb)))
		}
		return st.And(m.kindIs(s, skStr), st.Or(alts...))
	}
	return st.False()
}

func (m *Machine) scalarEqScalar(a, b *symScalar) *sym.Term {
	st := m.st
	if a == b {
		// x == x is false only for NaN floats, which ndScalar excludes
		return st.True()
	}
	return st.And(
		st.Eq(a.Kind, b.Kind),
		st.Implies(m.kindIs(a, skBool), st.Eq(a.B, b.B)),
		st.Implies(st.Or(m.kindIs(a, skInt), m.kindIs(a, skInt64)), st.Eq(a.I, b.I)),
		st.Implies(m.kindIs(a, skFloat), st.FEq(a.F, b.F)),
		st.Implies(m.kindIs(a, skStr), st.Eq(a.S, b.S)),
	)
}

// ---- unary ----

func (m *Machine) unop(instr *ssa.UnOp, x value) value {
	switch instr.Op {
	case token.MUL:
		p := x.(*value)
		if p == nil {
			panic(targetPanic{msg: "runtime error: invalid memory address or nil pointer dereference", pos: m.pos(instr.Pos())})
		}
		return load(mustDeref(instr.X.Type()), p)
	case token.NOT:
		return m.notv(x)
	case token.SUB:
		switch xv := x.(type) {
		case float64:
			return -xv
		case float32:
			return -xv
		case symv:
			if xv.K == types.Float64 {
				return m.unsym(m.st.FNeg(xv.T), xv.K)
			}
			return m.unsym(m.st.Neg(xv.T), xv.K)
		}
		k, _ := basicKindOf(x)
		u, _ := intBits(x)
		return mkInt(k, -u)
	case token.XOR:
		if xv, ok := x.(symv); ok {
			return m.unsym(m.st.BNot(xv.T), xv.K)
		}
		k, _ := basicKindOf(x)
		u, _ := intBits(x)
		return mkInt(k, ^u)
	case token.ARROW:
		panic(pathEnd{kind: "unsupported", msg: "channel receive"})
	}
	panic(fmt.Sprintf("invalid unary op %s %T", instr.Op, x))
}

// ---- type assertion ----

func basicOf(t types.Type) (*types.Basic, bool) {
	b, ok := t.(*types.Basic)
	return b, ok
}

func (m *Machine) typeAssert(instr *ssa.TypeAssert, x value) value {
	fail := func(format string, a ...any) value {
		if !instr.CommaOk {
			panic(targetPanic{msg: "interface conversion: " + fmt.Sprintf(format, a...), pos: m.pos(instr.Pos())})
		}
		return tuple{zero(instr.AssertedType), false}
	}
	okv := func(v value) value {
		if instr.CommaOk {
			return tuple{v, true}
		}
		return v
	}
	switch itf := x.(type) {
	case iface:
		if itf.t == nil {
			return fail("interface is nil, not %s", instr.AssertedType)
		}
		if idst, ok := instr.AssertedType.Underlying().(*types.Interface); ok {
			if meth, _ := types.MissingMethod(itf.t, idst, true); meth != nil {
				return fail("%v is not %v: missing method %s", itf.t, idst, meth.Name())
			}
			return okv(itf)
		}
		if types.Identical(itf.t, instr.AssertedType) {
			return okv(itf.v)
		}
		return fail("interface is %s, not %s", itf.t, instr.AssertedType)
	case symIface:
		s := itf.s
		if idst, ok := instr.AssertedType.Underlying().(*types.Interface); ok {
			if idst.NumMethods() > 0 {
				// basic types have no methods
				if m.decide(m.kindIs(s, skNil)) {
					return fail("interface is nil")
				}
				return fail("scalar has no methods")
			}
			if m.decide(m.kindIs(s, skNil)) {
				return fail("interface is nil")
			}
			return okv(itf)
		}
		b, ok := basicOf(instr.AssertedType)
		if !ok {
			// maps, slices, named types: a scalar is never one of those.
			// (for a nil scalar the assertion fails as well)
			return fail("interface is scalar, not %s", instr.AssertedType)
		}
		var k int
		switch b.Kind() {
		case types.Bool:
			k = skBool
		case types.Int:
			k = skInt
		case types.Int64:
			k = skInt64
		case types.Float64:
			k = skFloat
		case types.String:
			k = skStr
		default:
			return fail("interface is scalar, not %s", instr.AssertedType)
		}
		if !m.decide(m.kindIs(s, k)) {
			return fail("interface is scalar of another kind, not %s", instr.AssertedType)
		}
		switch k {
		case skBool:
			return okv(m.unsym(s.B, types.Bool))
		case skInt:
			return okv(m.unsym(s.I, types.Int))
		case skInt64:
			return okv(m.unsym(s.I, types.Int64))
		case skFloat:
			return okv(m.unsym(s.F, types.Float64))
		default:
			return okv(m.scalarString(s))
		}
	}
	panic(fmt.Sprintf("typeAssert on %T", x))
}

// scalarString concretises the string token of a scalar known to be a string.
func (m *Machine) scalarString(s *symScalar) value {
	for i, tok := range m.strTokens {
		if i == len(m.strTokens)-1 {
			return tok
		}
		if m.decide(m.st.Eq(s.S, m.st.BVC(8, uint64(i)))) {
			return tok
		}
	}
	panic("scalarString: no token")
}

// ---- builtins ----

func (m *Machine) callBuiltin(caller *frame, pos token.Pos, fn *ssa.Builtin, args []value) value {
	switch fn.Name() {
	case "append":
		if len(args) == 1 {
			return args[0]
		}
		if isString(args[1]) {
			arg0 := args[0].([]value)
			bs, _ := m.strTerms(args[1])
			for _, b := range bs {
				arg0 = append(arg0, m.unsym(b, types.Uint8))
			}
			return arg0
		}
		r := append(args[0].([]value), args[1].([]value)...)
		// allocation budget: a path that keeps doubling a list is ended as a
		// possible non-termination instead of exhausting the engine's memory
		m.allocElems += len(r)
		if m.allocElems > 50_000_000 {
			panic(pathEnd{kind: "fuel", msg: "allocation budget exceeded (list elements appended on this path)"})
		}
		return r

	case "copy":
		src := args[1]
		if isString(src) {
			bs, _ := m.strTerms(src)
			var s2 []value
			for _, b := range bs {
				s2 = append(s2, m.unsym(b, types.Uint8))
			}
			src = s2
		}
		return copy(args[0].([]value), src.([]value))

	case "delete":
		m.mapDelete(args[0].(*symMap), args[1])
		return nil

	case "clear":
		switch x := args[0].(type) {
		case []value:
			if len(x) > 0 {
				z := zero(fn.Type().(*types.Signature).Params().At(0).Type().Underlying().(*types.Slice).Elem())
				for i := range x {
					x[i] = z
				}
			}
		case *symMap:
			for _, e := range x.live() {
				m.mapDelete(x, e.k)
			}
		}
		return nil

	case "print", "println":
		return nil

	case "len":
		switch x := args[0].(type) {
		case string:
			return len(x)
		case symStr:
			return len(x.B)
		case array:
			return len(x)
		case *value:
			return len((*x).(array))
		case []value:
			return len(x)
		case *symMap:
			return x.length()
		default:
			panic(fmt.Sprintf("len: illegal operand: %T", x))
		}

	case "cap":
		switch x := args[0].(type) {
		case array:
			return cap(x)
		case *value:
			return cap((*x).(array))
		case []value:
			return cap(x)
		default:
			panic(fmt.Sprintf("cap: illegal operand: %T", x))
		}

	case "min", "max":
		x := args[0]
		for _, a := range args[1:] {
			var c value
			if fn.Name() == "min" {
				c = m.binop(token.LSS, nil, a, x)
			} else {
				c = m.binop(token.GTR, nil, a, x)
			}
			if m.truth(c) {
				x = a
			}
		}
		return x

	case "panic":
		panic(targetPanic{v: args[0], pos: m.pos(pos)})

	case "recover":
		return iface{}

	case "ssa:wrapnilchk":
		recv := args[0]
		if p, ok := recv.(*value); ok && p == nil {
			panic(targetPanic{msg: fmt.Sprintf("value method (%s).%s called using nil pointer", args[1], args[2])})
		}
		return recv

	case "ssa:deferstack":
		return &caller.defers
	}
	panic("unknown built-in: " + fn.Name())
}

type stringIter struct {
	*strings.Reader
	i int
}

func (it *stringIter) next(m *Machine) tuple {
	okv := make(tuple, 3)
	ch, n, err := it.ReadRune()
	ok := err == nil
	okv[0] = ok
	if ok {
		okv[1] = it.i
		okv[2] = ch
	}
	it.i += n
	return okv
}

func (m *Machine) rangeIter(x value) iter {
	switch x := x.(type) {
	case *symMap:
		return m.rangeMap(x)
	case string:
		return &stringIter{Reader: strings.NewReader(x)}
	case symStr:
		panic(pathEnd{kind: "unsupported", msg: "range over symbolic string"})
	}
	panic(fmt.Sprintf("cannot range over %T", x))
}

// ---- conversions ----

func (m *Machine) conv(t_dst, t_src types.Type, x value) value {
	ut_src := t_src.Underlying()
	ut_dst := t_dst.Underlying()

	switch ut_src := ut_src.(type) {
	case *types.Slice:
		// []byte or []rune -> string
		switch ut_src.Elem().Underlying().(*types.Basic).Kind() {
		case types.Byte:
			xs := x.([]value)
			bs := make([]*sym.Term, len(xs))
			for i := range xs {
				bs[i] = m.term(xs[i])
			}
			return mkStr(bs)
		case types.Rune:
			xs := x.([]value)
			r := make([]rune, 0, len(xs))
			for i := range xs {
				r = append(r, xs[i].(rune))
			}
			return string(r)
		}

	case *types.Basic:
		if _, isLit := x.(numLit); isLit {
			if b, ok := ut_dst.(*types.Basic); ok && b.Kind() == types.String {
				return x
			}
			unsupported("conversion of a numeric literal text to %s", t_dst)
		}
		// string -> []byte, []rune, string
		if isString(x) {
			switch ut_dst := ut_dst.(type) {
			case *types.Slice:
				switch ut_dst.Elem().Underlying().(*types.Basic).Kind() {
				case types.Rune:
					s, ok := x.(string)
					if !ok {
						panic(pathEnd{kind: "unsupported", msg: "[]rune(symbolic string)"})
					}
					var res []value
					for _, r := range []rune(s) {
						res = append(res, r)
					}
					return res
				case types.Byte:
					bs, _ := m.strTerms(x)
					res := make([]value, len(bs))
					for i, b := range bs {
						res[i] = m.unsym(b, types.Uint8)
					}
					return res
				}
			case *types.Basic:
				if ut_dst.Kind() == types.String {
					return x
				}
			}
			break
		}
		dst, ok := ut_dst.(*types.Basic)
		if !ok {
			break
		}
		dk := dst.Kind()
		// symbolic numeric conversions
		if sv, ok := x.(symv); ok {
			st := m.st
			switch {
			case isIntKind(sv.K) && isIntKind(dk):
				ws, wd := kindWidth(sv.K), kindWidth(dk)
				switch {
				case wd == ws:
					return m.unsym(sv.T, dk)
				case wd < ws:
					return m.unsym(st.Extract(sv.T, wd), dk)
				case kindSigned(sv.K):
					return m.unsym(st.SExt(sv.T, wd), dk)
				default:
					return m.unsym(st.ZExt(sv.T, wd), dk)
				}
			case isIntKind(sv.K) && dk == types.Float64:
				if kindSigned(sv.K) {
					return m.unsym(st.FFromSBV(sv.T), dk)
				}
				return m.unsym(st.FFromUBV(sv.T), dk)
			case sv.K == types.Float64 && isIntKind(dk):
				return m.unsym(st.FToSBV(sv.T, kindWidth(dk)), dk)
			case sv.K == types.Float64 && dk == types.Float64:
				return x
			case sv.K == types.Bool && dk == types.Bool:
				return x
			}
			panic(pathEnd{kind: "unsupported", msg: fmt.Sprintf("symbolic conversion %s -> %s", t_src, t_dst)})
		}
		// integer -> string
		if ut_src.Info()&types.IsInteger != 0 && dk == types.String {
			return string(rune(asInt64(x)))
		}
		if dk == types.UnsafePointer || ut_src.Kind() == types.UnsafePointer {
			panic(pathEnd{kind: "unsupported", msg: "unsafe.Pointer conversion"})
		}
		// concrete numeric conversions
		switch xv := x.(type) {
		case float64:
			return convFloat(xv, dk)
		case float32:
			return convFloat(float64(xv), dk)
		case bool:
			return xv
		}
		if u, ok := intBits(x); ok {
			sk, _ := basicKindOf(x)
			switch {
			case isIntKind(dk):
				return mkInt(dk, u)
			case dk == types.Float64:
				if kindSigned(sk) {
					return float64(int64(u))
				}
				return float64(u)
			case dk == types.Float32:
				if kindSigned(sk) {
					return float32(int64(u))
				}
				return float32(u)
			}
		}
	}
	panic(fmt.Sprintf("unsupported conversion: %s -> %s, dynamic type %T", t_src, t_dst, x))
}

func convFloat(f float64, dk types.BasicKind) value {
	switch dk {
	case types.Float64:
		return f
	case types.Float32:
		return float32(f)
	case types.Int:
		return int(f)
	case types.Int8:
		return int8(f)
	case types.Int16:
		return int16(f)
	case types.Int32:
		return int32(f)
	case types.Int64:
		return int64(f)
	case types.Uint:
		return uint(f)
	case types.Uint8:
		return uint8(f)
	case types.Uint16:
		return uint16(f)
	case types.Uint32:
		return uint32(f)
	case types.Uint64:
		return uint64(f)
	case types.Uintptr:
		return uintptr(f)
	}
	panic("convFloat")
}
