package exec

import (
	"fmt"
	"go/token"
	"go/types"
	"math/bits"
	"path"
	"path/filepath"
	"reflect"
	"strconv"
	"strings"
	"unicode"
	"unicode/utf8"

	"bklsym/sym"
)

// Generic native bridge: pure library functions that have no hand-written
// model. With concrete arguments the real function is called. With symbolic
// arguments the arguments are concretised from solver models (at most
// concretiseK distinct values per call, each a solver-decided fork); paths
// that needed this are counted as under-approximated: they can still produce
// replay-confirmed violations, but the run is not a full pass of the bound.

const concretiseK = 3

var nativeReg = map[string]any{
	"strings.Replace":                strings.Replace,
	"strings.Contains":               strings.Contains,
	"strings.ContainsAny":            strings.ContainsAny,
	"strings.ContainsRune":           strings.ContainsRune,
	"strings.Index":                  strings.Index,
	"strings.IndexByte":              strings.IndexByte,
	"strings.IndexRune":              strings.IndexRune,
	"strings.IndexAny":               strings.IndexAny,
	"strings.LastIndex":              strings.LastIndex,
	"strings.LastIndexByte":          strings.LastIndexByte,
	"strings.EqualFold":              strings.EqualFold,
	"strings.Fields":                 strings.Fields,
	"strings.Repeat":                 strings.Repeat,
	"strings.SplitAfter":             strings.SplitAfter,
	"strings.SplitAfterN":            strings.SplitAfterN,
	"strings.Title":                  strings.Title,
	"strings.ToLower":                strings.ToLower,
	"strings.ToUpper":                strings.ToUpper,
	"strings.Trim":                   strings.Trim,
	"strings.TrimLeft":               strings.TrimLeft,
	"strings.TrimRight":              strings.TrimRight,
	"strings.TrimSpace":              strings.TrimSpace,
	"strings.Compare":                strings.Compare,
	"strings.Cut":                    strings.Cut,
	"strings.CutPrefix":              strings.CutPrefix,
	"strings.CutSuffix":              strings.CutSuffix,
	"strings.ToValidUTF8":            strings.ToValidUTF8,
	"strconv.Itoa":                   strconv.Itoa,
	"strconv.Atoi":                   strconv.Atoi,
	"strconv.Quote":                  strconv.Quote,
	"strconv.Unquote":                strconv.Unquote,
	"strconv.FormatInt":              strconv.FormatInt,
	"strconv.FormatFloat":            strconv.FormatFloat,
	"strconv.FormatBool":             strconv.FormatBool,
	"strconv.ParseInt":               strconv.ParseInt,
	"strconv.ParseUint":              strconv.ParseUint,
	"strconv.ParseFloat":             strconv.ParseFloat,
	"unicode.IsUpper":                unicode.IsUpper,
	"unicode.IsLetter":               unicode.IsLetter,
	"unicode.IsDigit":                unicode.IsDigit,
	"unicode.IsNumber":               unicode.IsNumber,
	"unicode.IsSpace":                unicode.IsSpace,
	"unicode.IsPunct":                unicode.IsPunct,
	"unicode.IsPrint":                unicode.IsPrint,
	"unicode.IsControl":              unicode.IsControl,
	"unicode.IsSymbol":               unicode.IsSymbol,
	"unicode.IsTitle":                unicode.IsTitle,
	"unicode.ToLower":                unicode.ToLower,
	"unicode.ToUpper":                unicode.ToUpper,
	"unicode/utf8.RuneCountInString": utf8.RuneCountInString,
	"unicode/utf8.ValidString":       utf8.ValidString,
	"unicode/utf8.RuneLen":           utf8.RuneLen,
	"path/filepath.Clean":            filepath.Clean,
	"path/filepath.IsAbs":            filepath.IsAbs,
	"path/filepath.IsLocal":          filepath.IsLocal,
	"path/filepath.Match":            filepath.Match,
	"path/filepath.Split":            filepath.Split,
	"path/filepath.ToSlash":          filepath.ToSlash,
	"path/filepath.VolumeName":       filepath.VolumeName,
	"path.Base":                      path.Base,
	"path.Dir":                       path.Dir,
	"path.Ext":                       path.Ext,
	"path.Join":                      path.Join,
	"path.Clean":                     path.Clean,
	"math/bits.Len":                  bits.Len,
	"math/bits.Len64":                bits.Len64,
	"math/bits.Len32":                bits.Len32,
	"math/bits.TrailingZeros":        bits.TrailingZeros,
	"math/bits.TrailingZeros64":      bits.TrailingZeros64,
	"math/bits.LeadingZeros":         bits.LeadingZeros,
	"math/bits.LeadingZeros64":       bits.LeadingZeros64,
	"math/bits.OnesCount":            bits.OnesCount,
	"math/bits.OnesCount64":          bits.OnesCount64,
}

// concretise turns a symbolic scalar or string into a concrete value that is
// consistent with the path condition, forking on (arg == value).
func (m *Machine) concretise(v value, what string) value {
	for try := 0; try < concretiseK; try++ {
		model := m.lastModel
		if model == nil {
			var r sym.Result
			model, r = m.modelNow()
			if r != sym.Sat {
				panic(pathEnd{kind: "unknown", msg: "no model to concretise " + what})
			}
		}
		memo := map[int]sym.Val{}
		switch x := v.(type) {
		case symStr:
			bs := make([]byte, len(x.B))
			var eqs []*sym.Term
			for i, t := range x.B {
				bs[i] = byte(sym.Eval(t, model, memo).U)
				eqs = append(eqs, m.st.Eq(t, m.st.BVC(8, uint64(bs[i]))))
			}
			m.under = true
			if m.decide(m.st.And(eqs...)) {
				return string(bs)
			}
		case symv:
			val := sym.Eval(x.T, model, memo)
			var c *sym.Term
			var out value
			switch {
			case x.K == types.Bool:
				c = m.st.Eq(x.T, m.st.BoolC(val.U == 1))
				out = val.U == 1
			case x.K == types.Float64:
				c = m.st.Eq(x.T, m.st.FPC(val.F))
				out = val.F
			default:
				c = m.st.Eq(x.T, m.st.BVC(int(x.T.Sort.W), val.U))
				out = mkInt(x.K, sym.SExtU(val.U, x.T.Sort.W, kindSigned(x.K)))
			}
			m.under = true
			if m.decide(c) {
				return out
			}
		default:
			return v
		}
		m.lastModel = nil
	}
	panic(pathEnd{kind: "underapprox", msg: fmt.Sprintf("%s: more than %d concretisations", what, concretiseK)})
}

func (m *Machine) toReflect(v value, t reflect.Type, what string) reflect.Value {
	v = m.concretise(v, what)
	switch t.Kind() {
	case reflect.String:
		s, ok := v.(string)
		if !ok {
			unsupported("%s: cannot pass %T as string", what, v)
		}
		return reflect.ValueOf(s).Convert(t)
	case reflect.Bool, reflect.Int, reflect.Int8, reflect.Int16, reflect.Int32, reflect.Int64,
		reflect.Uint, reflect.Uint8, reflect.Uint16, reflect.Uint32, reflect.Uint64, reflect.Float64, reflect.Float32:
		rv := reflect.ValueOf(v)
		if !rv.IsValid() || !rv.Type().ConvertibleTo(t) {
			unsupported("%s: cannot pass %T as %s", what, v, t)
		}
		return rv.Convert(t)
	case reflect.Slice:
		xs, ok := v.([]value)
		if !ok {
			unsupported("%s: cannot pass %T as %s", what, v, t)
		}
		out := reflect.MakeSlice(t, len(xs), len(xs))
		for i, e := range xs {
			out.Index(i).Set(m.toReflect(e, t.Elem(), what))
		}
		return out
	}
	unsupported("%s: parameter type %s not bridged", what, t)
	return reflect.Value{}
}

func (m *Machine) fromReflect(rv reflect.Value) value {
	switch rv.Kind() {
	case reflect.String:
		return rv.String()
	case reflect.Bool:
		return rv.Bool()
	case reflect.Int:
		return int(rv.Int())
	case reflect.Int32:
		return int32(rv.Int())
	case reflect.Int64:
		return rv.Int()
	case reflect.Uint8:
		return uint8(rv.Uint())
	case reflect.Uint64:
		return rv.Uint()
	case reflect.Float64:
		return rv.Float()
	case reflect.Slice:
		if rv.IsNil() {
			return []value(nil)
		}
		out := make([]value, rv.Len())
		for i := range out {
			out[i] = m.fromReflect(rv.Index(i))
		}
		return out
	case reflect.Interface:
		if rv.IsNil() {
			return iface{}
		}
		if e, ok := rv.Interface().(error); ok {
			return m.mkErr(e.Error(), false)
		}
	}
	unsupported("native result of kind %s not bridged", rv.Kind())
	return nil
}

func (m *Machine) callNativeGeneric(name string, fn any, pos token.Pos, args []value) value {
	fv := reflect.ValueOf(fn)
	ft := fv.Type()
	var in []reflect.Value
	if ft.IsVariadic() {
		n := ft.NumIn() - 1
		for i := 0; i < n; i++ {
			in = append(in, m.toReflect(args[i], ft.In(i), name))
		}
		for _, e := range variadic(args[n]) {
			in = append(in, m.toReflect(e, ft.In(n).Elem(), name))
		}
	} else {
		if len(args) != ft.NumIn() {
			unsupported("%s: arity mismatch", name)
		}
		for i := range args {
			in = append(in, m.toReflect(args[i], ft.In(i), name))
		}
	}
	out := fv.Call(in)
	switch len(out) {
	case 0:
		return nil
	case 1:
		return m.fromReflect(out[0])
	}
	t := make(tuple, len(out))
	for i := range out {
		t[i] = m.fromReflect(out[i])
	}
	return t
}
