// Copyright 2013 The Go Authors. All rights reserved.
// Use of this source code is governed by a BSD-style
// license that can be found in the LICENSE file.
//
// Package exec is bklsym's forking symbolic interpreter for go/ssa. Its
// structure (boxed values, one visitInstr switch, Go panics for target
// panics) is derived from golang.org/x/tools/go/ssa/interp; the scalar domain
// is extended with SMT terms (package sym) and the control flow with
// solver-decided forks.
package exec

import (
	"bytes"
	"fmt"
	"go/types"
	"strings"

	"bklsym/sym"

	"golang.org/x/tools/go/ssa"
)

// Values
//
// - bool, all Go numeric types, string        concrete scalars
// - symv                                      symbolic scalar of a basic kind
// - symStr                                    string of concrete length with >=1 symbolic byte
// - *symMap                                   every Go map (ordered association list, reference identity)
// - []value                                   slices
// - iface                                     interface with concrete dynamic type
// - symIface                                  interface whose dynamic type is symbolic (scalar kinds only)
// - structure, array, *value, tuple           as in x/tools interp
// - *ssa.Function, *ssa.Builtin, *closure     functions
// - *errObj                                   engine-level error objects (result of fmt.Errorf etc.)
// - opaque                                    results of contract stubs (file handles, encoded bytes, ...)
type value any

type tuple []value

type array []value

type iface struct {
	t types.Type
	v value
}

type structure []value

type closure struct {
	Fn  *ssa.Function
	Env []value
}

type bad struct{}

// symv is a symbolic scalar: Bool term for bool, BV term for integers, FP64
// for float64.
type symv struct {
	T *sym.Term
	K types.BasicKind
}

// symStr is a string of concrete length; each byte is a BV8 term.
type symStr struct {
	B []*sym.Term
}

// Scalar kinds of a symbolic-kind interface value.
const (
	skNil = iota
	skBool
	skInt
	skFloat
	skStr
	skInt64
	skCount
)

// symScalar is an `any` whose dynamic type is symbolic: kind is a BV8 term
// ranging over the sk* constants. The string alternative is a token from the
// machine's plain-token table, selected by the BV8 term S.
type symScalar struct {
	Kind *sym.Term // BV8
	B    *sym.Term // Bool
	I    *sym.Term // BV64 (int and int64)
	F    *sym.Term // FP64
	S    *sym.Term // BV8 index into strTokens
	Name string
}

type symIface struct {
	s *symScalar
}

// opaque values stand for things produced and consumed only by foreign-call
// models.
type opaque struct {
	kind    string
	payload any
}

// errObj is an engine-level error value; all errors created by fmt.Errorf,
// errors.New and errors.Join models are errObjs.
type errObj struct {
	msg   string
	wraps []value // iface values
	sym   bool    // message depends on symbolic data (text is a placeholder)
}

type iter interface {
	next(m *Machine) tuple
}

// ---- engine control-flow signals (Go panics) ----

// targetPanic: the target program panicked (explicit panic or runtime error).
type targetPanic struct {
	v   value
	msg string
	pos string
}

func (p targetPanic) String() string {
	if p.msg != "" {
		return p.msg
	}
	return toString(p.v)
}

// pathEnd terminates the current path for a reason that is not a target panic.
type pathEnd struct {
	kind string // "assume", "assert-fail", "fuel", "frames", "unsupported", "exit", "unknown", "done"
	msg  string
}

type exitPanic int

func sameType(x, y types.Type) bool {
	if x == nil {
		return y == nil
	}
	return y != nil && types.Identical(x, y)
}

// ---- helpers on symbolic values ----

func kindWidth(k types.BasicKind) int {
	switch k {
	case types.Int8, types.Uint8:
		return 8
	case types.Int16, types.Uint16:
		return 16
	case types.Int32, types.Uint32:
		return 32
	case types.Int, types.Int64, types.Uint, types.Uint64, types.Uintptr:
		return 64
	}
	panic(fmt.Sprintf("kindWidth: %v", k))
}

func kindSigned(k types.BasicKind) bool {
	switch k {
	case types.Int, types.Int8, types.Int16, types.Int32, types.Int64:
		return true
	}
	return false
}

func isIntKind(k types.BasicKind) bool {
	switch k {
	case types.Int, types.Int8, types.Int16, types.Int32, types.Int64,
		types.Uint, types.Uint8, types.Uint16, types.Uint32, types.Uint64, types.Uintptr:
		return true
	}
	return false
}

func basicKindOf(v value) (types.BasicKind, bool) {
	switch v := v.(type) {
	case bool:
		return types.Bool, true
	case int:
		return types.Int, true
	case int8:
		return types.Int8, true
	case int16:
		return types.Int16, true
	case int32:
		return types.Int32, true
	case int64:
		return types.Int64, true
	case uint:
		return types.Uint, true
	case uint8:
		return types.Uint8, true
	case uint16:
		return types.Uint16, true
	case uint32:
		return types.Uint32, true
	case uint64:
		return types.Uint64, true
	case uintptr:
		return types.Uintptr, true
	case float64:
		return types.Float64, true
	case float32:
		return types.Float32, true
	case string:
		return types.String, true
	case symStr:
		return types.String, true
	case symv:
		return v.K, true
	}
	return 0, false
}

// concrete integer payload as uint64 bits
func intBits(v value) (uint64, bool) {
	switch v := v.(type) {
	case int:
		return uint64(v), true
	case int8:
		return uint64(v), true
	case int16:
		return uint64(v), true
	case int32:
		return uint64(v), true
	case int64:
		return uint64(v), true
	case uint:
		return uint64(v), true
	case uint8:
		return uint64(v), true
	case uint16:
		return uint64(v), true
	case uint32:
		return uint64(v), true
	case uint64:
		return v, true
	case uintptr:
		return uint64(v), true
	}
	return 0, false
}

func mkInt(k types.BasicKind, u uint64) value {
	switch k {
	case types.Int:
		return int(u)
	case types.Int8:
		return int8(u)
	case types.Int16:
		return int16(u)
	case types.Int32:
		return int32(u)
	case types.Int64:
		return int64(u)
	case types.Uint:
		return uint(u)
	case types.Uint8:
		return uint8(u)
	case types.Uint16:
		return uint16(u)
	case types.Uint32:
		return uint32(u)
	case types.Uint64:
		return u
	case types.Uintptr:
		return uintptr(u)
	}
	panic(fmt.Sprintf("mkInt: %v", k))
}

// term lifts a scalar value of basic kind into a term.
func (m *Machine) term(v value) *sym.Term {
	switch v := v.(type) {
	case symv:
		return v.T
	case bool:
		return m.st.BoolC(v)
	case float64:
		return m.st.FPC(v)
	}
	if u, ok := intBits(v); ok {
		k, _ := basicKindOf(v)
		return m.st.BVC(kindWidth(k), u)
	}
	panic(fmt.Sprintf("term: cannot lift %T", v))
}

// unsym turns a term of basic kind k back into a value: concrete Go value if
// the term is a constant, symv otherwise.
func (m *Machine) unsym(t *sym.Term, k types.BasicKind) value {
	if t.IsConst() {
		switch {
		case k == types.Bool:
			return t.U == 1
		case k == types.Float64:
			return t.F
		case isIntKind(k):
			return mkInt(k, t.U)
		}
	}
	return symv{T: t, K: k}
}

// strTerms returns the byte terms of a (concrete or symbolic) string.
func (m *Machine) strTerms(v value) ([]*sym.Term, bool) {
	switch v := v.(type) {
	case string:
		b := make([]*sym.Term, len(v))
		for i := 0; i < len(v); i++ {
			b[i] = m.st.BVC(8, uint64(v[i]))
		}
		return b, true
	case symStr:
		return v.B, true
	}
	return nil, false
}

// mkStr builds a string value from byte terms (Go string if all constant).
func mkStr(b []*sym.Term) value {
	all := true
	for _, t := range b {
		if !t.IsConst() {
			all = false
			break
		}
	}
	if all {
		bs := make([]byte, len(b))
		for i, t := range b {
			bs[i] = byte(t.U)
		}
		return string(bs)
	}
	return symStr{B: append([]*sym.Term(nil), b...)}
}

func isString(v value) bool {
	switch v.(type) {
	case string, symStr:
		return true
	}
	return false
}

func strLen(v value) int {
	switch v := v.(type) {
	case string:
		return len(v)
	case symStr:
		return len(v.B)
	}
	panic("strLen")
}

func isSymbolic(v value) bool {
	switch v.(type) {
	case symv, symStr, symIface:
		return true
	}
	return false
}

// ---- load / store (struct and array copy semantics), as in interp ----

func load(T types.Type, addr *value) value {
	switch T := T.Underlying().(type) {
	case *types.Struct:
		v := (*addr).(structure)
		a := make(structure, len(v))
		for i := range a {
			a[i] = load(T.Field(i).Type(), &v[i])
		}
		return a
	case *types.Array:
		v := (*addr).(array)
		a := make(array, len(v))
		for i := range a {
			a[i] = load(T.Elem(), &v[i])
		}
		return a
	default:
		return *addr
	}
}

func store(T types.Type, addr *value, v value) {
	switch T := T.Underlying().(type) {
	case *types.Struct:
		lhs := (*addr).(structure)
		rhs := v.(structure)
		for i := range lhs {
			store(T.Field(i).Type(), &lhs[i], rhs[i])
		}
	case *types.Array:
		lhs := (*addr).(array)
		rhs := v.(array)
		for i := range lhs {
			store(T.Elem(), &lhs[i], rhs[i])
		}
	default:
		*addr = v
	}
}

// ---- printing (debugging) ----

func writeValue(buf *bytes.Buffer, v value) {
	switch v := v.(type) {
	case nil, bool, int, int8, int16, int32, int64, uint, uint8, uint16, uint32, uint64, uintptr, float32, float64, complex64, complex128:
		fmt.Fprintf(buf, "%v", v)
	case string:
		fmt.Fprintf(buf, "%q", v)
	case symv:
		fmt.Fprintf(buf, "<sym %s>", truncate(v.T.String(), 60))
	case symStr:
		buf.WriteString("<symstr ")
		for _, b := range v.B {
			if b.IsConst() {
				buf.WriteByte(byte(b.U))
			} else {
				buf.WriteString("?")
			}
		}
		buf.WriteString(">")
	case symIface:
		fmt.Fprintf(buf, "<scalar %s>", v.s.Name)
	case *symMap:
		if v == nil {
			buf.WriteString("map(nil)")
			return
		}
		buf.WriteString("map[")
		for i, e := range v.ents {
			if i > 0 {
				buf.WriteString(" ")
			}
			writeValue(buf, e.k)
			buf.WriteString(":")
			writeValue(buf, e.v)
		}
		buf.WriteString("]")
	case *value:
		if v == nil {
			buf.WriteString("<nil>")
		} else {
			fmt.Fprintf(buf, "%p", v)
		}
	case iface:
		if v.t == nil {
			buf.WriteString("nil")
			return
		}
		writeValue(buf, v.v)
	case structure:
		buf.WriteString("{")
		for i, e := range v {
			if i > 0 {
				buf.WriteString(" ")
			}
			writeValue(buf, e)
		}
		buf.WriteString("}")
	case array:
		buf.WriteString("[")
		for i, e := range v {
			if i > 0 {
				buf.WriteString(" ")
			}
			writeValue(buf, e)
		}
		buf.WriteString("]")
	case []value:
		buf.WriteString("[")
		for i, e := range v {
			if i > 0 {
				buf.WriteString(" ")
			}
			writeValue(buf, e)
		}
		buf.WriteString("]")
	case *ssa.Function, *ssa.Builtin, *closure:
		fmt.Fprintf(buf, "%p", v)
	case tuple:
		buf.WriteString("(")
		for i, e := range v {
			if i > 0 {
				buf.WriteString(", ")
			}
			writeValue(buf, e)
		}
		buf.WriteString(")")
	case *errObj:
		fmt.Fprintf(buf, "error(%s)", v.msg)
	default:
		fmt.Fprintf(buf, "<%T>", v)
	}
}

func toString(v value) string {
	var b bytes.Buffer
	writeValue(&b, v)
	return b.String()
}

func truncate(s string, n int) string {
	if len(s) > n {
		return s[:n] + "..."
	}
	return s
}

var _ = strings.Join
