package exec

import (
	"fmt"
	"go/types"
	"path/filepath"
	"sort"
	"strings"

	"bklsym/sym"

	"golang.org/x/tools/go/ssa"
)

// Harness primitives: declared (with native bodies for replay) in the harness
// prelude zz_verif_prelude.go and intercepted here by name.

type intrinsicFn func(m *Machine, fr *frame, fn *ssa.Function, args []value) value

var intrinsics map[string]intrinsicFn

func (m *Machine) isHarnessPkg(fn *ssa.Function) bool {
	if v, ok := m.shared.harnessFn.Load(fn); ok {
		return v.(bool)
	}
	file := filepath.Base(m.shared.Fset.Position(fn.Pos()).Filename)
	r := strings.HasPrefix(file, "zz_verif_")
	m.shared.harnessFn.Store(fn, r)
	return r
}

func concInt(v value, what string) int {
	u, ok := intBits(v)
	if !ok {
		unsupported("%s: argument must be concrete", what)
	}
	return int(int64(u))
}

func init() {
	intrinsics = map[string]intrinsicFn{
		"ndChoice": func(m *Machine, fr *frame, fn *ssa.Function, a []value) value {
			return m.ndChoice(concInt(a[0], "ndChoice"))
		},
		"ndInt":   func(m *Machine, fr *frame, fn *ssa.Function, a []value) value { return m.ndInt(types.Int) },
		"ndInt64": func(m *Machine, fr *frame, fn *ssa.Function, a []value) value { return m.ndInt(types.Int64) },
		"ndBool":  func(m *Machine, fr *frame, fn *ssa.Function, a []value) value { return m.ndBool() },
		"ndFloat": func(m *Machine, fr *frame, fn *ssa.Function, a []value) value { return m.ndFloat() },
		"ndStr": func(m *Machine, fr *frame, fn *ssa.Function, a []value) value {
			return m.ndStr(concInt(a[0], "ndStr"), concStr(a[1], "ndStr"), false)
		},
		"ndStrN": func(m *Machine, fr *frame, fn *ssa.Function, a []value) value {
			return m.ndStr(concInt(a[0], "ndStrN"), concStr(a[1], "ndStrN"), true)
		},
		"ndScalar":   func(m *Machine, fr *frame, fn *ssa.Function, a []value) value { return m.ndScalar(false, true) },
		"ndScalarNN": func(m *Machine, fr *frame, fn *ssa.Function, a []value) value { return m.ndScalar(false, false) },
		"ndScalar64": func(m *Machine, fr *frame, fn *ssa.Function, a []value) value { return m.ndScalar(true, false) },
		"vAssume": func(m *Machine, fr *frame, fn *ssa.Function, a []value) value {
			m.vAssume(a[0])
			return nil
		},
		"vAssert": func(m *Machine, fr *frame, fn *ssa.Function, a []value) value {
			m.vAssert(concStr(a[0], "vAssert"), a[1])
			return nil
		},
		"vCover": func(m *Machine, fr *frame, fn *ssa.Function, a []value) value {
			m.covers[concStr(a[0], "vCover")] = true
			return nil
		},
		"vObserve": func(m *Machine, fr *frame, fn *ssa.Function, a []value) value {
			m.observes = append(m.observes, obsRec{Tag: concStr(a[0], "vObserve"), Val: m.snapshot(a[1])})
			return nil
		},
		"vEq": func(m *Machine, fr *frame, fn *ssa.Function, a []value) value {
			return m.unsym(m.deepEqTerm(a[0], a[1], false), types.Bool)
		},
		"vDisjoint": func(m *Machine, fr *frame, fn *ssa.Function, a []value) value {
			return m.disjoint(a[0], a[1])
		},
		"vTier": func(m *Machine, fr *frame, fn *ssa.Function, a []value) value { return m.shared.Tier },
		"vSetEnv": func(m *Machine, fr *frame, fn *ssa.Function, a []value) value {
			m.env = append([]value(nil), variadic(a[0])...)
			return nil
		},
		"vOr": func(m *Machine, fr *frame, fn *ssa.Function, a []value) value {
			return m.unsym(m.st.Or(m.term(a[0]), m.term(a[1])), types.Bool)
		},
		"vAnd": func(m *Machine, fr *frame, fn *ssa.Function, a []value) value {
			return m.unsym(m.st.And(m.term(a[0]), m.term(a[1])), types.Bool)
		},
		"vNoByte": func(m *Machine, fr *frame, fn *ssa.Function, a []value) value {
			bs, _ := m.strTerms(a[0])
			c := m.term(a[1])
			var cs []*sym.Term
			for _, b := range bs {
				cs = append(cs, m.st.Not(m.st.Eq(b, c)))
			}
			return m.unsym(m.st.And(cs...), types.Bool)
		},
		"vContains": func(m *Machine, fr *frame, fn *ssa.Function, a []value) value {
			bs, _ := m.strTerms(a[0])
			sub := concStr(a[1], "vContains")
			var alts []*sym.Term
			for i := 0; i+len(sub) <= len(bs); i++ {
				alts = append(alts, m.matchAt(bs, i, sub))
			}
			return m.unsym(m.st.Or(alts...), types.Bool)
		},
		"vIntText": func(m *Machine, fr *frame, fn *ssa.Function, a []value) value {
			return numLit{isFloat: false, T: m.term(a[0])}
		},
		"vFloatText": func(m *Machine, fr *frame, fn *ssa.Function, a []value) value {
			return numLit{isFloat: true, T: m.term(a[0])}
		},
		"vOrderMode": func(m *Machine, fr *frame, fn *ssa.Function, a []value) value {
			m.OrderMode = a[0].(bool)
			m.orderBudget = m.cfg.OrderBudget
			if m.orderBudget == 0 {
				m.orderBudget = 1
			}
			return nil
		},
		"vOrderLight": func(m *Machine, fr *frame, fn *ssa.Function, a []value) value {
			m.OrderMode = a[0].(bool)
			m.orderLight = a[0].(bool)
			m.orderBudget = m.cfg.OrderBudget
			if m.orderBudget == 0 {
				m.orderBudget = 1
			}
			return nil
		},
		"vOrderGlobal": func(m *Machine, fr *frame, fn *ssa.Function, a []value) value {
			m.orderGlobal = concInt(a[0], "vOrderGlobal")
			m.OrderMode = m.orderGlobal != 0
			return nil
		},
		"vIsNative": func(m *Machine, fr *frame, fn *ssa.Function, a []value) value { return false },
		"vSetTokens": func(m *Machine, fr *frame, fn *ssa.Function, a []value) value {
			var toks []string
			for _, t := range variadic(a[0]) {
				toks = append(toks, concStr(t, "vSetTokens"))
			}
			m.strTokens = toks
			return nil
		},
	}
}

func (m *Machine) vAssume(c value) {
	switch c := c.(type) {
	case bool:
		if !c {
			panic(pathEnd{kind: "assume"})
		}
	case symv:
		idx := len(m.decisions)
		if idx < len(m.prefix) {
			// feasibility was established when this prefix was first run
			m.record(m.prefix[idx])
			m.assumeTerm(c.T)
			return
		}
		if m.lastModel == nil || sym.Eval(c.T, m.lastModel, m.evalMemo).U != 1 {
			switch m.check(c.T) {
			case sym.Unsat:
				panic(pathEnd{kind: "assume"})
			case sym.Unknown:
				m.unknowns++
			case sym.Sat:
				m.fetchModel()
			}
		}
		m.record(1)
		m.assumeTerm(c.T)
	default:
		panic(fmt.Sprintf("vAssume: %T", c))
	}
}

func (m *Machine) vAssert(id string, c value) {
	m.asserts++
	var neg *sym.Term
	switch c := c.(type) {
	case bool:
		if c {
			m.discharge++
			return
		}
		neg = m.st.True()
	case symv:
		neg = m.st.Not(c.T)
	default:
		panic(fmt.Sprintf("vAssert: %T", c))
	}
	model, r := m.modelNow(neg)
	switch r {
	case sym.Unsat:
		m.discharge++
		return
	case sym.Unknown:
		if model == nil {
			panic(pathEnd{kind: "unknown", msg: "solver returned unknown for assertion " + id})
		}
		panic(pathEnd{kind: "unknown", msg: "model failed self-check for assertion " + id})
	}
	cand := &Candidate{Kind: "assert", AssertID: id, ND: m.concreteND(model), ModelOK: true}
	cand.Observes = m.renderObserves(model)
	m.cand = cand
	panic(pathEnd{kind: "assert-fail", msg: id})
}

// snapshot copies the containers of a tree (leaves are immutable) so that an
// observation shows the value as it was when it was observed.
func (m *Machine) snapshot(v value) value {
	m.walk++
	defer func() { m.walk-- }()
	if m.walk > 200 {
		return "<cyclic>"
	}
	switch x := v.(type) {
	case iface:
		return iface{t: x.t, v: m.snapshot(x.v)}
	case *symMap:
		if x == nil {
			return x
		}
		c := &symMap{keyT: x.keyT, id: x.id}
		for _, e := range x.live() {
			c.ents = append(c.ents, mapEnt{k: e.k, v: m.snapshot(e.v)})
		}
		c.n = len(c.ents)
		return c
	case []value:
		if x == nil {
			return x
		}
		c := make([]value, len(x))
		for i, e := range x {
			c[i] = m.snapshot(e)
		}
		return c
	}
	return v
}

// ---- deep equality as one formula ----

func unwrapAny(v value) value {
	if i, ok := v.(iface); ok {
		return i
	}
	return v
}

// deepEqTerm compares two `any` trees. strict=true is reflect.DeepEqual
// (nil and empty containers differ); strict=false identifies them
// (JSON equality), which is what harness oracles want.
func (m *Machine) deepEqTerm(a, b value, strict bool) *sym.Term {
	m.walk++
	defer func() { m.walk-- }()
	if m.walk > 200 {
		unsupported("deep equality on a self-containing structure")
	}
	st := m.st
	ai, aok := a.(iface)
	bi, bok := b.(iface)
	if aok && bok {
		if ai.t == nil || bi.t == nil {
			return st.BoolC(ai.t == nil && bi.t == nil)
		}
		switch av := ai.v.(type) {
		case *symMap:
			bv, ok := bi.v.(*symMap)
			if !ok || !sameType(ai.t, bi.t) {
				return st.False()
			}
			if strict && (av == nil) != (bv == nil) {
				return st.False()
			}
			if av.length() != bv.length() {
				return st.False()
			}
			var cs []*sym.Term
			for _, e := range av.live() {
				j := m.mapFind(bv, e.k)
				if j < 0 {
					return st.False()
				}
				c := m.deepEqTerm(e.v, bv.ents[j].v, strict)
				if c.IsFalse() {
					return c
				}
				cs = append(cs, c)
			}
			return st.And(cs...)
		case []value:
			bv, ok := bi.v.([]value)
			if !ok || !sameType(ai.t, bi.t) {
				return st.False()
			}
			if strict && (av == nil) != (bv == nil) {
				return st.False()
			}
			if len(av) != len(bv) {
				return st.False()
			}
			var cs []*sym.Term
			for i := range av {
				c := m.deepEqTerm(av[i], bv[i], strict)
				if c.IsFalse() {
					return c
				}
				cs = append(cs, c)
			}
			return st.And(cs...)
		}
		switch bi.v.(type) {
		case *symMap, []value:
			return st.False()
		}
		if !sameType(ai.t, bi.t) {
			return st.False()
		}
		if !types.Comparable(ai.t) {
			unsupported("deep equality on %s", ai.t)
		}
		return m.equalsTerm(ai.t, ai.v, bi.v)
	}
	// at least one symbolic-kind scalar
	if as, ok := a.(symIface); ok {
		if bok {
			switch bi.v.(type) {
			case *symMap, []value:
				return st.False()
			}
			return m.scalarEqIface(as.s, bi)
		}
		return m.scalarEqScalar(as.s, b.(symIface).s)
	}
	if bs, ok := b.(symIface); ok && aok {
		switch ai.v.(type) {
		case *symMap, []value:
			return st.False()
		}
		return m.scalarEqIface(bs.s, ai)
	}
	// non-interface values (e.g. typed slices/maps passed directly)
	switch av := a.(type) {
	case *symMap:
		return m.deepEqTerm(iface{tMapSA, av}, iface{tMapSA, b}, strict)
	case []value:
		return m.deepEqTerm(iface{tSliceA, av}, iface{tSliceA, b}, strict)
	}
	unsupported("deepEq on %T / %T", a, b)
	return nil
}

// ---- heap disjointness ----

func (m *Machine) reach(v value, maps map[*symMap]bool, arrs map[*value]bool) {
	switch v := v.(type) {
	case iface:
		m.reach(v.v, maps, arrs)
	case *symMap:
		if v == nil || maps[v] {
			return
		}
		maps[v] = true
		for _, e := range v.live() {
			m.reach(e.v, maps, arrs)
		}
	case []value:
		if cap(v) > 0 {
			arrs[&v[:1][0]] = true
		}
		for _, e := range v {
			m.reach(e, maps, arrs)
		}
	}
}

// disjoint: no map object and no slice backing array (identified by the
// address of its first visible element) is reachable from both a and b.
func (m *Machine) disjoint(a, b value) bool {
	ma, aa := map[*symMap]bool{}, map[*value]bool{}
	mb, ab := map[*symMap]bool{}, map[*value]bool{}
	m.reach(a, ma, aa)
	m.reach(b, mb, ab)
	for k := range ma {
		if mb[k] {
			return false
		}
	}
	for k := range aa {
		if ab[k] {
			return false
		}
	}
	return true
}

// ---- rendering values under a model (observations, samples) ----

func (m *Machine) render(v value, model sym.Model, memo map[int]sym.Val) string {
	m.walk++
	defer func() { m.walk-- }()
	if m.walk > 200 {
		return "<cyclic>"
	}
	ev := func(t *sym.Term) sym.Val { return sym.Eval(t, model, memo) }
	switch v := v.(type) {
	case nil:
		return "n"
	case iface:
		if v.t == nil {
			return "n"
		}
		if e := errOf(v); e != nil {
			return "err"
		}
		return m.render(v.v, model, memo)
	case symIface:
		s := v.s
		switch ev(s.Kind).U {
		case skNil:
			return "n"
		case skBool:
			return fmt.Sprintf("b:%v", ev(s.B).U == 1)
		case skInt:
			return fmt.Sprintf("i:%d", int64(ev(s.I).U))
		case skInt64:
			return fmt.Sprintf("i64:%d", int64(ev(s.I).U))
		case skFloat:
			return "f:" + fmtFloat(ev(s.F).F)
		case skStr:
			idx := int(ev(s.S).U)
			if idx >= len(m.strTokens) {
				idx = 0
			}
			return fmt.Sprintf("s:%x", m.strTokens[idx])
		}
		return "?"
	case bool:
		return fmt.Sprintf("b:%v", v)
	case int:
		return fmt.Sprintf("i:%d", v)
	case int64:
		return fmt.Sprintf("i64:%d", v)
	case float64:
		return "f:" + fmtFloat(v)
	case string:
		return fmt.Sprintf("s:%x", v)
	case symStr:
		bs := make([]byte, len(v.B))
		for i, t := range v.B {
			bs[i] = byte(ev(t).U)
		}
		return fmt.Sprintf("s:%x", bs)
	case symv:
		switch {
		case v.K == types.Bool:
			return fmt.Sprintf("b:%v", ev(v.T).U == 1)
		case v.K == types.Float64:
			return "f:" + fmtFloat(ev(v.T).F)
		case v.K == types.Int64:
			return fmt.Sprintf("i64:%d", int64(ev(v.T).U))
		case isIntKind(v.K):
			return fmt.Sprintf("i:%d", int64(sym.SExtU(ev(v.T).U, uint8(kindWidth(v.K)), kindSigned(v.K))))
		}
	case *symMap:
		type kv struct{ k, v string }
		var kvs []kv
		for _, e := range v.live() {
			kvs = append(kvs, kv{m.render(e.k, model, memo), m.render(e.v, model, memo)})
		}
		sort.Slice(kvs, func(i, j int) bool { return kvs[i].k < kvs[j].k })
		var sb strings.Builder
		sb.WriteString("{")
		for i, e := range kvs {
			if i > 0 {
				sb.WriteString(",")
			}
			sb.WriteString(e.k + "=" + e.v)
		}
		sb.WriteString("}")
		return sb.String()
	case []value:
		var sb strings.Builder
		sb.WriteString("[")
		for i, e := range v {
			if i > 0 {
				sb.WriteString(",")
			}
			sb.WriteString(m.render(e, model, memo))
		}
		sb.WriteString("]")
		return sb.String()
	case *errObj:
		return "err"
	}
	return fmt.Sprintf("<%T>", v)
}

func (m *Machine) renderObserves(model sym.Model) map[string]string {
	if len(m.observes) == 0 {
		return nil
	}
	out := map[string]string{}
	memo := map[int]sym.Val{}
	for _, o := range m.observes {
		out[o.Tag] = m.render(o.Val, model, memo)
	}
	return out
}
