package exec

import (
	"go/types"
	"sort"
)

type mapEnt struct {
	k, v value
	dead bool
}

// symMap represents every Go map: an association list in insertion order with
// reference identity. Keys may be symbolic; key comparisons that the
// simplifier cannot settle are solver-decided forks, so the number of live
// entries is always concrete on a path.
type symMap struct {
	ents []mapEnt
	n    int
	keyT types.Type
	id   int
}

func (m *Machine) newMap(keyT types.Type) *symMap {
	m.allocs++
	return &symMap{keyT: keyT, id: m.allocs}
}

// find returns the index of key k, or -1.
func (m *Machine) mapFind(sm *symMap, k value) int {
	if sm == nil {
		return -1
	}
	// first pass: syntactic hits (no forks)
	if ks, ok := k.(string); ok {
		for i := range sm.ents {
			e := &sm.ents[i]
			if e.dead {
				continue
			}
			if es, ok := e.k.(string); ok && es == ks {
				return i
			}
		}
	}
	for i := range sm.ents {
		e := &sm.ents[i]
		if e.dead {
			continue
		}
		c := m.equalsTerm(sm.keyT, e.k, k)
		if c.IsTrue() {
			return i
		}
		if c.IsFalse() {
			continue
		}
		if m.decide(c) {
			return i
		}
	}
	return -1
}

func (m *Machine) mapLookup(sm *symMap, k value) (value, bool) {
	i := m.mapFind(sm, k)
	if i < 0 {
		return nil, false
	}
	return sm.ents[i].v, true
}

func (m *Machine) mapInsert(sm *symMap, k, v value) {
	if sm == nil {
		panic(targetPanic{msg: "assignment to entry in nil map"})
	}
	i := m.mapFind(sm, k)
	if i >= 0 {
		sm.ents[i].v = v
		return
	}
	sm.ents = append(sm.ents, mapEnt{k: k, v: v})
	sm.n++
}

func (m *Machine) mapDelete(sm *symMap, k value) {
	i := m.mapFind(sm, k)
	if i >= 0 {
		sm.ents[i].dead = true
		sm.ents[i].v = nil
		sm.n--
	}
}

func (sm *symMap) length() int {
	if sm == nil {
		return 0
	}
	return sm.n
}

func (sm *symMap) live() []mapEnt {
	if sm == nil {
		return nil
	}
	out := make([]mapEnt, 0, sm.n)
	for _, e := range sm.ents {
		if !e.dead {
			out = append(out, e)
		}
	}
	return out
}

func (m *Machine) mapClone(sm *symMap) *symMap {
	if sm == nil {
		return nil
	}
	c := m.newMap(sm.keyT)
	c.ents = sm.live()
	c.n = len(c.ents)
	return c
}

// mapIter iterates in insertion order (canonical mode) or in a
// solver-independent but choice-driven order (order mode, C09): every next()
// picks one of the not-yet-produced live entries with a fresh choice.
type mapIter struct {
	sm    *symMap
	pos   int          // canonical mode cursor
	done  map[int]bool // order mode: entry indices already produced
	base  int          // order mode: entries present when iteration began
	fixed []int        // light order mode: the chosen order of the initial entries
	fpos  int
}

func (m *Machine) rangeMap(sm *symMap) *mapIter { return m.rangeMapIn(sm, false) }

func (m *Machine) rangeMapIn(sm *symMap, order bool) *mapIter {
	it := &mapIter{sm: sm}
	if order && sm != nil && sm.n > 1 && m.orderGlobal != 0 {
		// global mode: one fixed policy for every range of the evaluation
		// (1 reversed, 2 rotated left, 3 rotated right); no forks
		var live []int
		for i := range sm.ents {
			if !sm.ents[i].dead {
				live = append(live, i)
			}
		}
		n := len(live)
		for i := 0; i < n; i++ {
			switch m.orderGlobal {
			case 1:
				it.fixed = append(it.fixed, live[n-1-i])
			case 2:
				it.fixed = append(it.fixed, live[(i+1)%n])
			default:
				it.fixed = append(it.fixed, live[(i+n-1)%n])
			}
		}
		it.done = map[int]bool{}
		it.base = len(sm.ents)
		return it
	}
	if order && sm != nil && sm.n > 1 && m.orderBudget > 0 {
		// Order exploration is budgeted: at most orderBudget range
		// instances per evaluation leave the canonical (insertion) order,
		// each of them over all permutations. Which instances do is itself
		// a choice, so every single range (pair of ranges, ...) of the
		// evaluation is permuted on some path.
		if m.choose(2, "permute-this-range") == 0 {
			return it
		}
		m.orderBudget--
		it.done = map[int]bool{}
		it.base = len(sm.ents)
		if m.orderLight {
			// light mode: n+1 orders instead of n!: each key first (the
			// rest in insertion order), or everything reversed. Every key
			// comes first on some path and every pair of keys is visited
			// in both relative orders.
			var live []int
			for i := range sm.ents {
				if !sm.ents[i].dead {
					live = append(live, i)
				}
			}
			c := m.choose(len(live)+1, "maporder-light")
			if c == len(live) {
				for i := len(live) - 1; i >= 0; i-- {
					it.fixed = append(it.fixed, live[i])
				}
			} else {
				it.fixed = append(it.fixed, live[c])
				for i, x := range live {
					if i != c {
						it.fixed = append(it.fixed, x)
					}
				}
			}
		}
	}
	return it
}

func (it *mapIter) next(m *Machine) tuple {
	if it.sm == nil {
		return tuple{false, nil, nil}
	}
	if it.done == nil {
		for it.pos < len(it.sm.ents) {
			e := it.sm.ents[it.pos]
			it.pos++
			if e.dead {
				continue
			}
			return tuple{true, e.k, e.v}
		}
		return tuple{false, nil, nil}
	}
	// light order mode: the fixed order, then entries inserted meanwhile
	if it.fixed != nil {
		for it.fpos < len(it.fixed) {
			i := it.fixed[it.fpos]
			it.fpos++
			if it.sm.ents[i].dead {
				continue
			}
			it.done[i] = true
			e := it.sm.ents[i]
			return tuple{true, e.k, e.v}
		}
		for i := it.base; i < len(it.sm.ents); i++ {
			if it.sm.ents[i].dead || it.done[i] {
				continue
			}
			it.done[i] = true
			e := it.sm.ents[i]
			return tuple{true, e.k, e.v}
		}
		return tuple{false, nil, nil}
	}
	// order mode
	var cand []int
	for i := range it.sm.ents {
		if it.sm.ents[i].dead || it.done[i] {
			continue
		}
		cand = append(cand, i)
	}
	if len(cand) == 0 {
		return tuple{false, nil, nil}
	}
	// entries added after the iteration began may be skipped entirely:
	// offer "stop" as an alternative when only late entries remain.
	onlyLate := true
	for _, i := range cand {
		if i < it.base {
			onlyLate = false
		}
	}
	n := len(cand)
	if onlyLate {
		n++
	}
	c := 0
	if n > 1 {
		c = m.choose(n, "maporder")
	}
	if c == len(cand) {
		return tuple{false, nil, nil}
	}
	i := cand[c]
	it.done[i] = true
	e := it.sm.ents[i]
	return tuple{true, e.k, e.v}
}

// sortedKeys returns the keys of sm in ascending order; symbolic keys are
// ordered by solver-decided comparisons.
func (m *Machine) sortedKeys(sm *symMap) []value {
	ents := sm.live()
	keys := make([]value, len(ents))
	allConc := true
	for i, e := range ents {
		keys[i] = e.k
		if _, ok := e.k.(string); !ok {
			allConc = false
		}
	}
	if allConc {
		sort.Slice(keys, func(i, j int) bool { return keys[i].(string) < keys[j].(string) })
		return keys
	}
	// insertion sort with decided comparisons
	for i := 1; i < len(keys); i++ {
		for j := i; j > 0; j-- {
			lt := m.lessTerm(keys[j], keys[j-1])
			var b bool
			if lt.IsConst() {
				b = lt.IsTrue()
			} else {
				b = m.decide(lt)
			}
			if !b {
				break
			}
			keys[j], keys[j-1] = keys[j-1], keys[j]
		}
	}
	return keys
}
