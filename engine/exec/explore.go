package exec

import (
	"fmt"
	"go/token"
	"go/types"
	"os"
	"path/filepath"
	"runtime"
	"sort"
	"strings"
	"sync"
	"time"

	"bklsym/sym"

	"golang.org/x/tools/go/packages"
	"golang.org/x/tools/go/ssa"
	"golang.org/x/tools/go/ssa/ssautil"
)

// ---- loading ----

type LoadConfig struct {
	RepoDir    string
	RootPath   string            // module path
	Patterns   []string          // package patterns relative to RepoDir
	Overlay    map[string][]byte // absolute path -> content
	BuildFlags []string
}

func Load(lc LoadConfig) (*Shared, error) {
	cfg := &packages.Config{
		Mode:       packages.LoadAllSyntax,
		Dir:        lc.RepoDir,
		Overlay:    lc.Overlay,
		BuildFlags: lc.BuildFlags,
		Env:        os.Environ(),
	}
	pkgs, err := packages.Load(cfg, lc.Patterns...)
	if err != nil {
		return nil, err
	}
	var errs []string
	packages.Visit(pkgs, nil, func(p *packages.Package) {
		for _, e := range p.Errors {
			errs = append(errs, e.Error())
		}
	})
	if len(errs) > 0 {
		return nil, fmt.Errorf("load errors:\n%s", strings.Join(errs, "\n"))
	}
	prog, _ := ssautil.AllPackages(pkgs, ssa.InstantiateGenerics)
	prog.Build()
	sh := &Shared{Prog: prog, Pkgs: map[string]*ssa.Package{}, RootPath: lc.RootPath, Fset: prog.Fset}
	for _, p := range prog.AllPackages() {
		sh.Pkgs[p.Pkg.Path()] = p
	}
	fmtPkg := sh.Pkgs["fmt"]
	if fmtPkg == nil {
		return nil, fmt.Errorf("fmt not in program")
	}
	we := fmtPkg.Type("wrapError")
	if we == nil {
		return nil, fmt.Errorf("fmt.wrapError not found")
	}
	sh.errorT = typesPointer(we.Type())
	sh.errorIface = universeError()
	errTypeForGlobals = sh.errorT
	if yp := sh.Pkgs["gopkg.in/yaml.v3"]; yp != nil {
		if n := yp.Type("Node"); n != nil {
			sh.yamlNodeT, _ = n.Type().Underlying().(*types.Struct)
		}
	}
	if jp := sh.Pkgs["encoding/json"]; jp != nil {
		if n := jp.Type("Number"); n != nil {
			sh.jsonNumberT = n.Type()
		}
	}
	return sh, nil
}

// ---- exploration ----

type ExploreConfig struct {
	Harness   string // function name
	PkgPath   string
	Workers   int
	Solver    []string
	TimeoutMS int
	Cfg       Config
	MaxPaths  int
	Deadline  time.Time
	Samples   int // number of passing paths for which a concrete instance is extracted
	Verbose   bool
}

type Report struct {
	Harness       string
	Paths         int // terminal paths (ok + violation + pruned-after-work)
	OK            int
	Pruned        int
	Inconclusive  int
	Unsupported   int
	Outside       int
	Candidates    []*Candidate
	Forks         int
	Decisions     int
	Asserts       int
	Discharged    int
	Unknowns      int
	Steps         int64
	Covers        map[string]int
	Foreign       map[string]int
	Solver        sym.Stats
	Reasons       map[string]int
	Samples       []PathSample
	Complete      bool // the whole bounded space was explored
	Wall          time.Duration
	UnderApprox   int
	GlobalStores  map[string]int
	DistinctPaths int
}

type PathSample struct {
	ND       []NDValue         `json:"nd"`
	Observes map[string]string `json:"observes,omitempty"`
	Decision int               `json:"decisions"`
}

func Explore(sh *Shared, ec ExploreConfig) (*Report, error) {
	pkg := sh.Pkgs[ec.PkgPath]
	if pkg == nil {
		return nil, fmt.Errorf("package %s not loaded", ec.PkgPath)
	}
	hfn := pkg.Func(ec.Harness)
	if hfn == nil {
		return nil, fmt.Errorf("harness %s not found in %s", ec.Harness, ec.PkgPath)
	}
	start := time.Now()
	rep := &Report{Harness: ec.Harness, Covers: map[string]int{}, Foreign: map[string]int{}, Reasons: map[string]int{}, GlobalStores: map[string]int{}}

	var mu sync.Mutex
	cond := sync.NewCond(&mu)
	stack := [][]int32{nil}
	active := 0
	stop := false
	complete := true

	worker := func(id int) {
		solver, err := sym.NewSolver(ec.Solver, ec.TimeoutMS)
		if err != nil {
			mu.Lock()
			stop = true
			complete = false
			rep.Reasons["solver start: "+err.Error()]++
			cond.Broadcast()
			mu.Unlock()
			return
		}
		defer func() {
			mu.Lock()
			rep.Solver.Sat += solver.Stats.Sat
			rep.Solver.Unsat += solver.Stats.Unsat
			rep.Solver.Unknown += solver.Stats.Unknown
			rep.Solver.Errors += solver.Stats.Errors
			rep.Solver.Time += solver.Stats.Time
			mu.Unlock()
			solver.Close()
		}()
		if lp := os.Getenv("BKLSYM_SMTLOG"); lp != "" && id == 0 {
			if f, err := os.Create(lp); err == nil {
				solver.Log = f
				defer f.Close()
			}
		}
		m := NewMachine(sh, ec.Cfg, solver)
		defer func() {
			for b := range m.blocks {
				sh.Blocks.LoadOrStore(b, struct{}{})
			}
		}()
		for {
			mu.Lock()
			for len(stack) == 0 && active > 0 && !stop {
				cond.Wait()
			}
			if stop || (len(stack) == 0 && active == 0) {
				cond.Broadcast()
				mu.Unlock()
				return
			}
			prefix := stack[len(stack)-1]
			stack = stack[:len(stack)-1]
			active++
			wantSample := len(rep.Samples) < ec.Samples
			mu.Unlock()

			res := m.RunPath(pkg, hfn, prefix, wantSample)

			mu.Lock()
			active--
			rep.Paths++
			rep.Forks += res.Forks
			rep.Decisions += len(res.Decisions)
			rep.Asserts += res.Asserts
			rep.Discharged += res.Discharged
			rep.Unknowns += res.Unknowns
			rep.Steps += int64(res.Steps)
			for c := range res.Covers {
				rep.Covers[c]++
			}
			for f, n := range res.Foreign {
				rep.Foreign[f] += n
			}
			for _, s := range res.Stores {
				rep.GlobalStores[s]++
			}
			if res.UnderApprox {
				rep.UnderApprox++
			}
			switch res.Status {
			case "ok":
				rep.OK++
				if res.Sample != nil && len(rep.Samples) < ec.Samples {
					rep.Samples = append(rep.Samples, PathSample{ND: res.Sample, Observes: res.ObsPred, Decision: len(res.Decisions)})
				}
			case "pruned":
				rep.Pruned++
			case "violation":
				res.Cand.Harness = ec.Harness
				rep.Candidates = append(rep.Candidates, res.Cand)
			case "outside":
				rep.Outside++
				rep.Reasons[res.Reason]++
			case "unsupported":
				rep.Unsupported++
				rep.Reasons[res.Reason]++
			default:
				rep.Inconclusive++
				rep.Reasons[res.Status+": "+res.Reason]++
			}
			if res.Unknowns > 0 {
				rep.Reasons["solver unknown"] += res.Unknowns
			}
			stack = append(stack, res.NewPrefixes...)
			if ec.Verbose && rep.Paths%1000 == 0 {
				fmt.Fprintf(os.Stderr, "[%s] paths=%d ok=%d pruned=%d cand=%d stack=%d\n", ec.Harness, rep.Paths, rep.OK, rep.Pruned, len(rep.Candidates), len(stack))
			}
			if (ec.MaxPaths > 0 && rep.Paths >= ec.MaxPaths) || (!ec.Deadline.IsZero() && time.Now().After(ec.Deadline)) {
				if len(stack) > 0 || active > 0 {
					complete = false
					rep.Reasons["budget exhausted (paths or time)"]++
				}
				stop = true
			}
			if len(rep.Candidates) >= 20 {
				if len(stack) > 0 || active > 0 {
					complete = false
				}
				stop = true
			}
			cond.Broadcast()
			mu.Unlock()
			runtime.Gosched()
		}
	}

	var wg sync.WaitGroup
	for i := 0; i < ec.Workers; i++ {
		wg.Add(1)
		go func(id int) {
			defer wg.Done()
			worker(id)
		}(i)
	}
	wg.Wait()
	rep.Complete = complete && rep.Inconclusive == 0 && rep.Unsupported == 0 && rep.Unknowns == 0 && rep.UnderApprox == 0
	rep.Wall = time.Since(start)
	sort.Slice(rep.Candidates, func(i, j int) bool {
		return fmt.Sprint(rep.Candidates[i].Decisions) < fmt.Sprint(rep.Candidates[j].Decisions)
	})
	return rep, nil
}

// RunPath executes the harness once along the given decision prefix.
func (m *Machine) RunPath(pkg *ssa.Package, hfn *ssa.Function, prefix []int32, wantSample bool) (res PathResult) {
	m.resetPath(prefix)
	m.harness = hfn.Name()
	m.cand = nil
	if m.solver.Dead() {
		m.solver.Revive()
	}
	before := m.solver.Stats
	defer func() {
		r := recover()
		res.Decisions = append([]int32(nil), m.decisions...)
		res.NewPrefixes = m.pending
		res.Covers = m.covers
		res.Steps = m.steps
		res.Forks = m.forks
		res.Asserts = m.asserts
		res.Discharged = m.discharge
		res.Unknowns = m.unknowns
		res.Foreign = m.foreign
		res.UnderApprox = m.under
		res.Stores = m.stores
		_ = before
		switch r := r.(type) {
		case nil:
			res.Status = "ok"
			// implicit obligation of every path (C08 monitor): it ended
			// without a reachable panic and within its budgets
			res.Asserts++
			res.Discharged++
			if wantSample {
				if model, rr := m.modelNow(); rr == sym.Sat {
					res.Sample = m.concreteND(model)
					res.ObsPred = m.renderObserves(model)
				}
			}
		case pathEnd:
			switch r.kind {
			case "assume":
				res.Status = "pruned"
			case "assert-fail":
				res.Status = "violation"
				res.Cand = m.cand
				res.Cand.Decisions = res.Decisions
			case "fuel", "frames":
				// possible non-termination: a candidate for C08, replayed natively
				res.Status = "violation"
				res.Cand = m.mkCandidate(r.kind, r.msg, "")
				if res.Cand == nil {
					res.Status = "inconclusive"
					res.Reason = r.kind + " without model"
				} else {
					res.Cand.Decisions = res.Decisions
				}
			case "exit":
				if m.exitOK {
					res.Status = "ok"
				} else {
					res.Status = "inconclusive"
					res.Reason = "unexpected " + r.msg
				}
			case "exec":
				res.Status = "ok"
				res.Asserts++
				res.Discharged++
			case "outside":
				res.Status = "outside"
				res.Reason = r.msg
			case "underapprox":
				res.Status = "pruned"
				res.UnderApprox = true
			case "unsupported":
				res.Status = "unsupported"
				res.Reason = firstLine(r.msg)
			default:
				res.Status = "inconclusive"
				res.Reason = r.kind + ": " + firstLine(r.msg)
			}
		case targetPanic:
			res.Status = "violation"
			res.Cand = m.mkCandidate("panic", r.String(), r.pos)
			if res.Cand == nil {
				res.Status = "inconclusive"
				res.Reason = "panic without model: " + r.String()
			} else {
				res.Cand.Decisions = res.Decisions
			}
		default:
			buf := make([]byte, 8192)
			buf = buf[:runtime.Stack(buf, false)]
			res.Status = "inconclusive"
			res.Reason = fmt.Sprintf("engine error: %v", r)
			if os.Getenv("BKLSYM_DEBUG") != "" {
				fmt.Fprintf(os.Stderr, "engine error: %v\n%s\n", r, buf)
			}
		}
		if m.solverOpen {
			m.solver.EndPath()
			m.solverOpen = false
		}
		if m.solver.Dead() {
			res.Status = "inconclusive"
			res.Reason = "solver process died: " + m.solver.LastErr
		}
	}()
	// package initialisation of the code under test (dependencies' init
	// functions are foreign and skipped)
	if init := pkg.Func("init"); init != nil {
		m.call(nil, token.NoPos, init, nil)
	}
	m.initDone = true
	m.call(nil, token.NoPos, hfn, nil)
	return
}

func (m *Machine) mkCandidate(kind, msg, pos string) *Candidate {
	model, r := m.modelNow()
	if r != sym.Sat {
		return nil
	}
	return &Candidate{Kind: kind, Msg: msg, Pos: pos, ND: m.concreteND(model), Observes: m.renderObserves(model), ModelOK: true}
}

func firstLine(s string) string {
	if i := strings.IndexByte(s, '\n'); i >= 0 {
		return s[:i]
	}
	return s
}

// OverlayFromDir maps every file of dir into targetDir (virtual paths).
func OverlayFromDir(dir, targetDir string, ov map[string][]byte) error {
	ents, err := os.ReadDir(dir)
	if err != nil {
		return err
	}
	for _, e := range ents {
		if e.IsDir() || !strings.HasSuffix(e.Name(), ".go") {
			continue
		}
		b, err := os.ReadFile(filepath.Join(dir, e.Name()))
		if err != nil {
			return err
		}
		ov[filepath.Join(targetDir, e.Name())] = b
	}
	return nil
}
