// Copyright 2013 The Go Authors. All rights reserved.
// Use of this source code is governed by a BSD-style
// license that can be found in the LICENSE file.

package exec

import (
	"fmt"
	"go/token"
	"go/types"
	"runtime"
	"slices"
	"strings"
	"sync"

	"golang.org/x/tools/go/ssa"
)

type continuation int

const (
	kNext continuation = iota
	kReturn
	kJump
)

// Shared is the immutable program state shared by all workers.
type Shared struct {
	Prog        *ssa.Program
	Pkgs        map[string]*ssa.Package // by import path
	RootPath    string                  // module path of the code under test
	finfo       sync.Map                // *ssa.Function -> *funcInfo
	Fset        *token.FileSet
	errorT      types.Type // a named type used as dynamic type of errObj values
	stringT     types.Type
	Blocks      sync.Map // coverage: *ssa.BasicBlock -> struct{}
	errorIface  types.Type
	jsonNumberT types.Type
	yamlNodeT   *types.Struct
	harnessFn   sync.Map
	Tier        int
}

type funcInfo struct {
	idx map[ssa.Value]int32
	n   int
}

func (sh *Shared) info(fn *ssa.Function) *funcInfo {
	if v, ok := sh.finfo.Load(fn); ok {
		return v.(*funcInfo)
	}
	fi := &funcInfo{idx: map[ssa.Value]int32{}}
	add := func(v ssa.Value) {
		fi.idx[v] = int32(fi.n)
		fi.n++
	}
	for _, p := range fn.Params {
		add(p)
	}
	for _, fv := range fn.FreeVars {
		add(fv)
	}
	for _, b := range fn.Blocks {
		for _, in := range b.Instrs {
			if v, ok := in.(ssa.Value); ok {
				add(v)
			}
		}
	}
	act, _ := sh.finfo.LoadOrStore(fn, fi)
	return act.(*funcInfo)
}

type deferred struct {
	fn    value
	args  []value
	instr *ssa.Defer
	tail  *deferred
}

type frame struct {
	i                *Machine
	caller           *frame
	fn               *ssa.Function
	fi               *funcInfo
	block, prevBlock *ssa.BasicBlock
	env              []value
	locals           []value
	defers           *deferred
	result           value
	panicking        bool
	panic            any
	phitemps         []value
}

func (fr *frame) get(key ssa.Value) value {
	switch key := key.(type) {
	case nil:
		return nil
	case *ssa.Function, *ssa.Builtin:
		return key
	case *ssa.Const:
		return constValue(key)
	case *ssa.Global:
		return fr.i.global(key)
	}
	if ix, ok := fr.fi.idx[key]; ok {
		return fr.env[ix]
	}
	panic(fmt.Sprintf("get: no value for %T: %v", key, key.Name()))
}

func (fr *frame) set(key ssa.Value, v value) {
	fr.env[fr.fi.idx[key]] = v
}

func (m *Machine) global(g *ssa.Global) *value {
	if r, ok := m.globals[g]; ok {
		return r
	}
	cell := new(value)
	*cell = zero(mustDeref(g.Type()))
	if g.Pkg != nil {
		if v, ok := foreignGlobalInit(g.Pkg.Pkg.Path(), g.Name()); ok {
			*cell = v
		}
	}
	m.globals[g] = cell
	return cell
}

func mustDeref(t types.Type) types.Type {
	if p, ok := t.Underlying().(*types.Pointer); ok {
		return p.Elem()
	}
	panic(fmt.Sprintf("mustDeref: %v is not a pointer", t))
}

func (fr *frame) runDefer(d *deferred) {
	var ok bool
	defer func() {
		if !ok {
			r := recover()
			if isEngineSignal(r) {
				panic(r)
			}
			fr.panicking = true
			fr.panic = r
		}
	}()
	fr.i.call(fr, d.instr.Pos(), d.fn, d.args)
	ok = true
}

func (fr *frame) runDefers() {
	for d := fr.defers; d != nil; d = d.tail {
		fr.runDefer(d)
	}
	fr.defers = nil
	if fr.panicking {
		panic(fr.panic)
	}
}

// isEngineSignal: panics that are engine control flow, not target panics.
func isEngineSignal(r any) bool {
	switch r.(type) {
	case pathEnd:
		return true
	}
	return false
}

func (m *Machine) pos(p token.Pos) string {
	if p == token.NoPos {
		return ""
	}
	ps := m.shared.Fset.Position(p)
	return fmt.Sprintf("%s:%d", ps.Filename, ps.Line)
}

func (m *Machine) visitInstr(fr *frame, instr ssa.Instruction) continuation {
	switch instr := instr.(type) {
	case *ssa.DebugRef:

	case *ssa.UnOp:
		fr.set(instr, m.unop(instr, fr.get(instr.X)))

	case *ssa.BinOp:
		fr.set(instr, m.binop(instr.Op, instr.X.Type(), fr.get(instr.X), fr.get(instr.Y)))

	case *ssa.Call:
		fn, args := m.prepareCall(fr, &instr.Call)
		fr.set(instr, m.call(fr, instr.Pos(), fn, args))

	case *ssa.ChangeInterface:
		fr.set(instr, fr.get(instr.X))

	case *ssa.ChangeType:
		fr.set(instr, fr.get(instr.X))

	case *ssa.Convert:
		fr.set(instr, m.conv(instr.Type(), instr.X.Type(), fr.get(instr.X)))

	case *ssa.MakeInterface:
		fr.set(instr, iface{t: instr.X.Type(), v: fr.get(instr.X)})

	case *ssa.Extract:
		fr.set(instr, fr.get(instr.Tuple).(tuple)[instr.Index])

	case *ssa.Slice:
		fr.set(instr, m.slice(fr.get(instr.X), fr.get(instr.Low), fr.get(instr.High), fr.get(instr.Max)))

	case *ssa.Return:
		switch len(instr.Results) {
		case 0:
		case 1:
			fr.result = fr.get(instr.Results[0])
		default:
			res := make([]value, 0, len(instr.Results))
			for _, r := range instr.Results {
				res = append(res, fr.get(r))
			}
			fr.result = tuple(res)
		}
		fr.block = nil
		return kReturn

	case *ssa.RunDefers:
		fr.runDefers()

	case *ssa.Panic:
		panic(targetPanic{v: fr.get(instr.X), pos: m.pos(instr.Pos())})

	case *ssa.Store:
		if g, ok := instr.Addr.(*ssa.Global); ok && m.initDone {
			m.stores = append(m.stores, g.String()+" at "+m.pos(instr.Pos()))
		}
		addr := fr.get(instr.Addr).(*value)
		if addr == nil {
			panic(targetPanic{msg: "nil pointer dereference (store)", pos: m.pos(instr.Pos())})
		}
		store(mustDeref(instr.Addr.Type()), addr, fr.get(instr.Val))

	case *ssa.If:
		succ := 1
		if m.truth(fr.get(instr.Cond)) {
			succ = 0
		}
		fr.prevBlock, fr.block = fr.block, fr.block.Succs[succ]
		return kJump

	case *ssa.Jump:
		fr.prevBlock, fr.block = fr.block, fr.block.Succs[0]
		return kJump

	case *ssa.Defer:
		fn, args := m.prepareCall(fr, &instr.Call)
		defers := &fr.defers
		if into := fr.get(instr.DeferStack); into != nil {
			defers = into.(**deferred)
		}
		*defers = &deferred{fn: fn, args: args, instr: instr, tail: *defers}

	case *ssa.Go:
		// One legal schedule: the goroutine runs to completion where it is
		// started (sync.WaitGroup and the locks are no-ops). A goroutine that
		// blocks on a channel is not supported. What other schedules would
		// do is not explored here; the native replay of sampled paths runs
		// the real goroutines.
		fn, args := m.prepareCall(fr, &instr.Call)
		m.goroutines++
		m.call(fr, instr.Pos(), fn, args)

	case *ssa.Send, *ssa.MakeChan, *ssa.Select:
		panic(pathEnd{kind: "unsupported", msg: fmt.Sprintf("concurrency instruction %T at %s", instr, m.pos(instr.Pos()))})

	case *ssa.Alloc:
		var addr *value
		if instr.Heap {
			addr = new(value)
			fr.set(instr, addr)
		} else {
			addr = fr.get(instr).(*value)
		}
		*addr = zero(mustDeref(instr.Type()))

	case *ssa.MakeSlice:
		for _, sz := range []value{fr.get(instr.Len), fr.get(instr.Cap)} {
			if sv, ok := sz.(symv); ok {
				w := int(sv.T.Sort.W)
				if m.decide(m.st.SLt(sv.T, m.st.BVC(w, 0))) {
					panic(targetPanic{msg: "runtime error: makeslice: len/cap out of range", pos: m.pos(instr.Pos())})
				}
			} else if u, ok := intBits(sz); ok && int64(u) < 0 {
				panic(targetPanic{msg: "runtime error: makeslice: len/cap out of range", pos: m.pos(instr.Pos())})
			}
		}
		c := m.concretizeInt(fr.get(instr.Cap), 0, 64)
		l := m.concretizeInt(fr.get(instr.Len), 0, 64)
		if l > c {
			panic(targetPanic{msg: "runtime error: makeslice: cap out of range", pos: m.pos(instr.Pos())})
		}
		sl := make([]value, c)
		tElt := instr.Type().Underlying().(*types.Slice).Elem()
		for i := range sl {
			sl[i] = zero(tElt)
		}
		fr.set(instr, sl[:l])

	case *ssa.MakeMap:
		fr.set(instr, m.newMap(instr.Type().Underlying().(*types.Map).Key()))

	case *ssa.Range:
		if sm, ok := fr.get(instr.X).(*symMap); ok {
			// iteration order is explored only for ranges in the code under
			// test, not in harness helpers
			fr.set(instr, m.rangeMapIn(sm, m.OrderMode && !m.isHarnessPkg(fr.fn)))
		} else {
			fr.set(instr, m.rangeIter(fr.get(instr.X)))
		}

	case *ssa.Next:
		fr.set(instr, fr.get(instr.Iter).(iter).next(m))

	case *ssa.FieldAddr:
		p := fr.get(instr.X).(*value)
		if p == nil {
			panic(targetPanic{msg: "nil pointer dereference (field)", pos: m.pos(instr.Pos())})
		}
		fr.set(instr, &(*p).(structure)[instr.Field])

	case *ssa.Field:
		fr.set(instr, fr.get(instr.X).(structure)[instr.Field])

	case *ssa.IndexAddr:
		x := fr.get(instr.X)
		idx := m.concretizeInt(fr.get(instr.Index), 0, 64)
		switch x := x.(type) {
		case []value:
			if idx < 0 || idx >= int64(len(x)) {
				panic(targetPanic{msg: fmt.Sprintf("index out of range [%d] with length %d", idx, len(x)), pos: m.pos(instr.Pos())})
			}
			fr.set(instr, &x[idx])
		case *value:
			a := (*x).(array)
			if idx < 0 || idx >= int64(len(a)) {
				panic(targetPanic{msg: fmt.Sprintf("index out of range [%d] with length %d", idx, len(a)), pos: m.pos(instr.Pos())})
			}
			fr.set(instr, &a[idx])
		default:
			panic(fmt.Sprintf("unexpected x type in IndexAddr: %T", x))
		}

	case *ssa.Index:
		x := fr.get(instr.X)
		idx := m.concretizeInt(fr.get(instr.Index), 0, 64)
		switch x := x.(type) {
		case array:
			fr.set(instr, x[idx])
		case string:
			if idx < 0 || idx >= int64(len(x)) {
				panic(targetPanic{msg: fmt.Sprintf("index out of range [%d] with length %d", idx, len(x)), pos: m.pos(instr.Pos())})
			}
			fr.set(instr, x[idx])
		case symStr:
			if idx < 0 || idx >= int64(len(x.B)) {
				panic(targetPanic{msg: fmt.Sprintf("index out of range [%d] with length %d", idx, len(x.B)), pos: m.pos(instr.Pos())})
			}
			fr.set(instr, m.unsym(x.B[idx], types.Uint8))
		default:
			panic(fmt.Sprintf("unexpected x type in Index: %T", x))
		}

	case *ssa.Lookup:
		fr.set(instr, m.lookup(instr, fr.get(instr.X), fr.get(instr.Index)))

	case *ssa.MapUpdate:
		sm := fr.get(instr.Map).(*symMap)
		if sm == nil {
			panic(targetPanic{msg: "assignment to entry in nil map", pos: m.pos(instr.Pos())})
		}
		m.mapInsert(sm, fr.get(instr.Key), fr.get(instr.Value))

	case *ssa.TypeAssert:
		fr.set(instr, m.typeAssert(instr, fr.get(instr.X)))

	case *ssa.MakeClosure:
		bindings := make([]value, 0, len(instr.Bindings))
		for _, binding := range instr.Bindings {
			bindings = append(bindings, fr.get(binding))
		}
		fr.set(instr, &closure{instr.Fn.(*ssa.Function), bindings})

	case *ssa.Phi:
		panic("unreachable: phi")

	case *ssa.SliceToArrayPointer:
		panic(pathEnd{kind: "unsupported", msg: "SliceToArrayPointer"})

	default:
		panic(fmt.Sprintf("unexpected instruction: %T", instr))
	}
	return kNext
}

func (m *Machine) prepareCall(fr *frame, call *ssa.CallCommon) (fn value, args []value) {
	v := fr.get(call.Value)
	if call.Method == nil {
		fn = v
	} else {
		// interface method invocation
		switch recv := v.(type) {
		case iface:
			if recv.t == nil {
				panic(targetPanic{msg: "method invoked on nil interface: " + call.Method.Name()})
			}
			if eo, ok := recv.v.(*errObj); ok {
				// engine-level error object
				fn = &engMethod{name: call.Method.Name(), recv: eo}
				break
			}
			if op, ok := recv.v.(opaque); ok {
				fn = &engMethod{name: call.Method.Name(), recv: op}
				break
			}
			f := m.prog.LookupMethod(recv.t, call.Method.Pkg(), call.Method.Name())
			if f == nil {
				panic(fmt.Sprintf("method set for dynamic type %v does not contain %s", recv.t, call.Method))
			}
			fn = f
			args = append(args, recv.v)
		case symIface:
			panic(targetPanic{msg: "method invoked on scalar interface value: " + call.Method.Name()})
		default:
			panic(fmt.Sprintf("invoke on %T", v))
		}
	}
	for _, arg := range call.Args {
		args = append(args, fr.get(arg))
	}
	return
}

// engMethod is a method of an engine-level object (errObj, opaque).
type engMethod struct {
	name string
	recv any
}

func (m *Machine) call(caller *frame, callpos token.Pos, fn value, args []value) value {
	switch fn := fn.(type) {
	case *ssa.Function:
		if fn == nil {
			panic(targetPanic{msg: "call of nil function", pos: m.pos(callpos)})
		}
		return m.callSSA(caller, callpos, fn, args, nil)
	case *closure:
		return m.callSSA(caller, callpos, fn.Fn, args, fn.Env)
	case *ssa.Builtin:
		return m.callBuiltin(caller, callpos, fn, args)
	case *engMethod:
		return m.callEngMethod(fn, args)
	case *nativeFunc:
		return fn.f(m, args)
	}
	panic(fmt.Sprintf("cannot call %T", fn))
}

// nativeFunc is a function value implemented by the engine (e.g. the
// iterator returned by the maps.Keys model).
type nativeFunc struct {
	name string
	f    func(m *Machine, args []value) value
}

// sourcePkgs: library packages that are pure Go over their arguments and are
// interpreted from their SSA like the target (unless a model exists for the
// callee): a source edit that starts using one of them stays decidable.
var sourcePkgs = map[string]bool{
	"slices": true, "maps": true, "cmp": true, "sort": true,
	"golang.org/x/exp/slices": true, "golang.org/x/exp/maps": true,
	"container/list": true,
}

func (m *Machine) fromSource(fn *ssa.Function) bool {
	pkg := fn.Pkg
	if pkg == nil {
		if o := fn.Origin(); o != nil {
			pkg = o.Pkg
		}
	}
	if pkg == nil || !sourcePkgs[pkg.Pkg.Path()] || fn.Blocks == nil {
		return false
	}
	name := baseName(fn)
	if _, ok := foreignTab[name]; ok {
		return false
	}
	if _, ok := nativeReg[name]; ok {
		return false
	}
	return true
}

func (m *Machine) isForeign(fn *ssa.Function) bool {
	pkg := fn.Pkg
	if pkg == nil {
		if o := fn.Origin(); o != nil {
			pkg = o.Pkg
		}
	}
	if pkg == nil {
		// synthetic wrapper/bound method etc: decide by the object's package
		if fn.Object() != nil && fn.Object().Pkg() != nil {
			p := fn.Object().Pkg().Path()
			return !(p == m.shared.RootPath || strings.HasPrefix(p, m.shared.RootPath+"/"))
		}
		if fn.Parent() != nil {
			return m.isForeign(fn.Parent())
		}
		return false
	}
	p := pkg.Pkg.Path()
	return !(p == m.shared.RootPath || strings.HasPrefix(p, m.shared.RootPath+"/"))
}

func (m *Machine) callSSA(caller *frame, callpos token.Pos, fn *ssa.Function, args []value, env []value) value {
	if fn.Parent() == nil {
		if h, ok := intrinsics[fn.Name()]; ok && m.isHarnessPkg(fn) {
			return h(m, caller, fn, args)
		}
		if h, ok := intrinsicsVFS[fn.Name()]; ok && m.isHarnessPkg(fn) {
			return h(m, caller, fn, args)
		}
		if m.isForeign(fn) && !m.fromSource(fn) {
			return m.callForeign(caller, callpos, fn, args)
		}
		if stub, ok := m.codecStub(fn); ok {
			return stub(args)
		}
		if fn.Blocks == nil {
			panic(pathEnd{kind: "unsupported", msg: "no code for function: " + fn.String()})
		}
	} else if fn.Blocks == nil {
		panic(pathEnd{kind: "unsupported", msg: "no code for function: " + fn.String()})
	}
	if fn.TypeParams().Len() > 0 && len(fn.TypeArgs()) == 0 {
		panic("generic function body not instantiated: " + fn.String())
	}
	m.frames++
	if m.frames > m.cfg.MaxFrames {
		panic(pathEnd{kind: "frames", msg: fmt.Sprintf("call depth exceeds %d in %s", m.cfg.MaxFrames, fn)})
	}
	defer func() { m.frames-- }()

	fi, ok := m.finfo[fn]
	if !ok {
		fi = m.shared.info(fn)
		m.finfo[fn] = fi
	}
	fr := &frame{i: m, caller: caller, fn: fn, fi: fi}
	fr.env = make([]value, fi.n)
	fr.block = fn.Blocks[0]
	fr.locals = make([]value, len(fn.Locals))
	for i, l := range fn.Locals {
		fr.locals[i] = zero(mustDeref(l.Type()))
		fr.set(l, &fr.locals[i])
	}
	for i, p := range fn.Params {
		fr.set(p, args[i])
	}
	for i, fv := range fn.FreeVars {
		fr.set(fv, env[i])
	}
	for fr.block != nil {
		m.runFrame(fr)
	}
	return fr.result
}

func (m *Machine) runFrame(fr *frame) {
	defer func() {
		if fr.block == nil {
			return // normal return
		}
		r := recover()
		if isEngineSignal(r) {
			panic(r)
		}
		if _, ok := r.(targetPanic); !ok {
			// anything else is a failure of the interpreter itself
			// (unsupported construct or engine bug): inconclusive, never
			// a target panic.
			buf := make([]byte, 4096)
			buf = buf[:runtime.Stack(buf, false)]
			panic(pathEnd{kind: "engine-error", msg: fmt.Sprintf("%v in %s\n%s", r, fr.fn, buf)})
		}
		fr.panicking = true
		fr.panic = r
		fr.runDefers()
		fr.block = fr.fn.Recover
	}()

	for {
		if _, seen := m.blocks[fr.block]; !seen {
			m.blocks[fr.block] = struct{}{}
		}
		nonPhis := executePhis(fr)
		for _, instr := range nonPhis {
			m.steps++
			if m.steps > m.cfg.MaxSteps {
				panic(pathEnd{kind: "fuel", msg: fmt.Sprintf("instruction budget %d exhausted in %s", m.cfg.MaxSteps, fr.fn)})
			}
			if m.cfg.Trace {
				if v, ok := instr.(ssa.Value); ok {
					fmt.Printf("  %s: %s = %s\n", fr.fn.Name(), v.Name(), instr)
				} else {
					fmt.Printf("  %s: %s\n", fr.fn.Name(), instr)
				}
			}
			if m.visitInstr(fr, instr) == kReturn {
				return
			}
		}
	}
}

func executePhis(fr *frame) []ssa.Instruction {
	firstNonPhi := -1
	for i, instr := range fr.block.Instrs {
		if _, ok := instr.(*ssa.Phi); !ok {
			firstNonPhi = i
			break
		}
	}
	nonPhis := fr.block.Instrs[firstNonPhi:]
	if firstNonPhi > 0 {
		phis := fr.block.Instrs[:firstNonPhi]
		predIndex := slices.Index(fr.block.Preds, fr.prevBlock)
		fr.phitemps = fr.phitemps[:0]
		for _, phi := range phis {
			phi := phi.(*ssa.Phi)
			fr.phitemps = append(fr.phitemps, fr.get(phi.Edges[predIndex]))
		}
		for i, phi := range phis {
			fr.set(phi.(*ssa.Phi), fr.phitemps[i])
		}
	}
	return nonPhis
}
