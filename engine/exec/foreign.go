package exec

import (
	"crypto/sha256"
	"encoding/base64"
	"encoding/hex"
	"encoding/json"
	"errors"
	"fmt"
	"go/token"
	"go/types"
	"path/filepath"
	"reflect"
	"regexp"
	"strconv"
	"strings"
	"unicode"
	"unicode/utf8"

	"bklsym/sym"

	"golang.org/x/tools/go/ssa"
	"gopkg.in/yaml.v3"
)

// Library boundary. Nothing outside the module under test is interpreted
// from source; every foreign callee is handled here in exactly one way:
//   native   all arguments concrete: the real function is called
//   model    exact model over engine values (strings, maps, errors, ...)
//   stub     contract stub (an assumption of the check; listed in evidence)
// A callee that is not listed ends the path as unsupported.

type foreignFn func(m *Machine, fr *frame, pos token.Pos, args []value) value

var foreignTab map[string]foreignFn

func baseName(fn *ssa.Function) string {
	s := fn.String()
	if i := strings.IndexByte(s, '['); i >= 0 && !strings.HasPrefix(s, "(") {
		s = s[:i]
	}
	return s
}

func (m *Machine) callForeign(caller *frame, pos token.Pos, fn *ssa.Function, args []value) value {
	name := baseName(fn)
	if f, ok := foreignTab[name]; ok {
		m.foreign[name]++
		return f(m, caller, pos, args)
	}
	if f, ok := bufferTab[name]; ok {
		m.foreign[name]++
		return f(m, caller, pos, args)
	}
	if f, ok := regexTab[name]; ok {
		m.foreign[name+" (symbolic regexp)"]++
		return f(m, caller, pos, args)
	}
	if f, ok := vfsTab[name]; ok {
		m.foreign[name+" (virtual FS)"]++
		return f(m, caller, pos, args)
	}
	if strings.HasSuffix(name, ".init") {
		return nil // dependency initialisers are not run (package state of deps is opaque)
	}
	if nf, ok := nativeReg[name]; ok {
		m.foreign[name+" (native/concretised)"]++
		return m.callNativeGeneric(name, nf, pos, args)
	}
	panic(pathEnd{kind: "unsupported", msg: "foreign function without model: " + fn.String()})
}

func unsupported(format string, a ...any) {
	panic(pathEnd{kind: "unsupported", msg: fmt.Sprintf(format, a...)})
}

// ---- types used when building engine values ----

var (
	tString  = types.Typ[types.String]
	tInt     = types.Typ[types.Int]
	tInt64   = types.Typ[types.Int64]
	tFloat64 = types.Typ[types.Float64]
	tBool    = types.Typ[types.Bool]
	tAny     = types.NewInterfaceType(nil, nil)
	tMapSA   = types.NewMap(tString, tAny)
	tSliceA  = types.NewSlice(tAny)
)

func init() { tAny.Complete() }

// ---- engine <-> native conversion of JSON-like trees ----

// toNative converts an engine value (as held in an `any`) into a native Go
// value. ok=false if it contains symbolic leaves or unsupported shapes.
func (m *Machine) toNative(v value) (any, bool) {
	m.walk++
	defer func() { m.walk-- }()
	if m.walk > 200 {
		m.cyclicSeen = true
		return nil, false // self-containing structure
	}
	switch v := v.(type) {
	case iface:
		if v.t == nil {
			return nil, true
		}
		if eo, ok := v.v.(*errObj); ok {
			return errors.New(eo.msg), !eo.sym
		}
		if _, ok := v.t.Underlying().(*types.Struct); ok {
			return nil, false
		}
		if n, ok := v.t.(*types.Named); ok {
			// named types keep their name only in %T/%#v output; not needed
			_ = n
		}
		return m.toNative(v.v)
	case bool, int, int8, int16, int32, int64, uint, uint8, uint16, uint32, uint64, float32, float64, string:
		return v, true
	case *symMap:
		if v == nil {
			return map[string]any(nil), true
		}
		out := map[string]any{}
		for _, e := range v.live() {
			ks, ok := e.k.(string)
			if !ok {
				return nil, false
			}
			nv, ok := m.toNative(e.v)
			if !ok {
				return nil, false
			}
			out[ks] = nv
		}
		return out, true
	case []value:
		if v == nil {
			return []any(nil), true
		}
		out := make([]any, len(v))
		for i, e := range v {
			nv, ok := m.toNative(e)
			if !ok {
				return nil, false
			}
			out[i] = nv
		}
		return out, true
	case *errObj:
		return errors.New(v.msg), !v.sym
	case *value:
		if v == nil {
			return nil, false
		}
		// pointer to struct with a String method etc.: not convertible
		return nil, false
	}
	return nil, false
}

// fromNative converts a native JSON-like value into an engine `any`.
func (m *Machine) fromNative(x any) value {
	switch x := x.(type) {
	case nil:
		return iface{}
	case bool:
		return iface{tBool, x}
	case int:
		return iface{tInt, x}
	case int64:
		return iface{tInt64, x}
	case float64:
		return iface{tFloat64, x}
	case string:
		return iface{tString, x}
	case map[string]any:
		sm := m.newMap(tString)
		keys := make([]string, 0, len(x))
		for k := range x {
			keys = append(keys, k)
		}
		sortStrings(keys)
		for _, k := range keys {
			m.mapInsert(sm, k, m.fromNative(x[k]))
		}
		return iface{tMapSA, sm}
	case []any:
		out := make([]value, len(x))
		for i, e := range x {
			out[i] = m.fromNative(e)
		}
		return iface{tSliceA, out}
	}
	unsupported("fromNative: %T", x)
	return nil
}

func sortStrings(s []string) {
	for i := 1; i < len(s); i++ {
		for j := i; j > 0 && s[j] < s[j-1]; j-- {
			s[j], s[j-1] = s[j-1], s[j]
		}
	}
}

// ---- errors ----

func (m *Machine) mkErr(msg string, symbolic bool, wraps ...value) value {
	return iface{t: m.shared.errorT, v: &errObj{msg: msg, wraps: wraps, sym: symbolic}}
}

func errOf(v value) *errObj {
	if i, ok := v.(iface); ok {
		if e, ok := i.v.(*errObj); ok {
			return e
		}
	}
	return nil
}

func errIs(e *errObj, target *errObj) bool {
	if e == nil {
		return false
	}
	if e == target {
		return true
	}
	for _, w := range e.wraps {
		if errIs(errOf(w), target) {
			return true
		}
	}
	return false
}

func (m *Machine) callEngMethod(em *engMethod, args []value) value {
	switch r := em.recv.(type) {
	case *errObj:
		switch em.name {
		case "Error":
			return r.msg
		case "Unwrap":
			if len(r.wraps) > 0 {
				return r.wraps[0]
			}
			return iface{}
		}
	case opaque:
		return m.opaqueMethod(r, em.name, args)
	}
	unsupported("engine method %s on %T", em.name, em.recv)
	return nil
}

// ---- fmt ----

var verbRE = regexp.MustCompile(`%[#+\- 0]*[0-9]*(\.[0-9]+)?[a-zA-Z%]`)

// formatArgs runs a printf-style format over engine values. If every operand
// is concrete the real fmt.Sprintf produces the text; otherwise only the
// verbs %s %v %d on strings / concrete ints are modelled exactly and anything
// else makes the result opaque (ok=false).
func (m *Machine) formatArgs(format string, args []value) (res value, wraps []value, ok bool) {
	verbs := verbRE.FindAllString(format, -1)
	ai := 0
	natives := make([]any, 0, len(args))
	allNative := true
	for _, vb := range verbs {
		if vb == "%%" {
			continue
		}
		if ai >= len(args) {
			break
		}
		a := m.stringerText(args[ai])
		args[ai] = a
		ai++
		if vb[len(vb)-1] == 'w' {
			wraps = append(wraps, a)
		}
		if vb == "%T" {
			natives = append(natives, m.shallowNative(a))
			continue
		}
		m.cyclicSeen = false
		n, ok := m.toNative(a)
		if !ok {
			allNative = false
			if m.cyclicSeen {
				// the real fmt walks the value recursively and never returns
				panic(pathEnd{kind: "frames", msg: "fmt formats a self-containing structure: unbounded recursion (fatal stack overflow)"})
			}
		}
		natives = append(natives, n)
	}
	if allNative && ai == len(args) {
		nf := strings.ReplaceAll(format, "%w", "%v")
		return fmt.Sprintf(nf, natives...), wraps, true
	}
	// symbolic operands: piecewise model
	var out []*sym.Term
	lit := verbRE.Split(format, -1)
	ai = 0
	emit := func(s string) {
		b, _ := m.strTerms(s)
		out = append(out, b...)
	}
	for i, vb := range verbs {
		emit(lit[i])
		if vb == "%%" {
			emit("%")
			continue
		}
		if ai >= len(args) {
			return nil, wraps, false
		}
		a := args[ai]
		ai++
		if n, ok := m.toNative(a); ok {
			emit(fmt.Sprintf(strings.ReplaceAll(vb, "%w", "%v"), n))
			continue
		}
		if vb != "%s" && vb != "%v" {
			return nil, wraps, false
		}
		if fb, ok := m.fmtV(a); ok {
			out = append(out, fb...)
			continue
		}
		return nil, wraps, false
	}
	emit(lit[len(lit)-1])
	return mkStr(out), wraps, true
}

// fmtV: the %v text of a JSON-like engine value whose strings may be
// symbolic (fmt prints maps with sorted keys, strings raw, nil as <nil>).
func (m *Machine) fmtV(v value) ([]*sym.Term, bool) {
	m.walk++
	defer func() { m.walk-- }()
	if m.walk > 200 {
		return nil, false
	}
	lit := func(s string) []*sym.Term { b, _ := m.strTerms(s); return b }
	switch x := v.(type) {
	case iface:
		if x.t == nil {
			return lit("<nil>"), true
		}
		return m.fmtV(x.v)
	case string:
		return lit(x), true
	case symStr:
		return x.B, true
	case bool, int, int64, float64:
		return lit(fmt.Sprintf("%v", x)), true
	case symIface:
		sc := x.s
		switch {
		case m.decide(m.kindIs(sc, skNil)):
			return lit("<nil>"), true
		case m.decide(m.kindIs(sc, skBool)):
			if m.decide(sc.B) {
				return lit("true"), true
			}
			return lit("false"), true
		case m.decide(m.kindIs(sc, skStr)):
			s, _ := m.scalarString(sc).(string)
			return lit(s), true
		case m.decide(m.st.Or(m.kindIs(sc, skInt), m.kindIs(sc, skInt64))):
			return m.fmtV(symv{T: sc.I, K: types.Int})
		}
		panic(pathEnd{kind: "outside", msg: "%v of a symbolic float64 (number formatting is not modelled)"})
	case symv:
		if isIntKind(x.K) && kindSigned(x.K) {
			w := int(x.T.Sort.W)
			for n := int64(-9); n <= 9; n++ {
				if m.decide(m.st.Eq(x.T, m.st.BVC(w, uint64(n)))) {
					return lit(fmt.Sprint(n)), true
				}
			}
			panic(pathEnd{kind: "outside", msg: "%v of a symbolic integer outside [-9,9]"})
		}
		if x.K == types.Bool {
			if m.decide(x.T) {
				return lit("true"), true
			}
			return lit("false"), true
		}
		panic(pathEnd{kind: "outside", msg: "%v of a symbolic float64 (number formatting is not modelled)"})
	case *symMap:
		out := lit("map[")
		for i, k := range m.sortedKeys(x) {
			if i > 0 {
				out = append(out, lit(" ")...)
			}
			kb, _ := m.strTerms(k)
			out = append(out, kb...)
			out = append(out, lit(":")...)
			e, _ := m.mapLookup(x, k)
			eb, ok := m.fmtV(e)
			if !ok {
				return nil, false
			}
			out = append(out, eb...)
		}
		return append(out, lit("]")...), true
	case []value:
		out := lit("[")
		for i, e := range x {
			if i > 0 {
				out = append(out, lit(" ")...)
			}
			eb, ok := m.fmtV(e)
			if !ok {
				return nil, false
			}
			out = append(out, eb...)
		}
		return append(out, lit("]")...), true
	}
	return nil, false
}

// shallowNative: a native value with the same dynamic type (for %T).
func (m *Machine) shallowNative(a value) any {
	i, ok := a.(iface)
	if !ok {
		if n, ok := m.toNative(a); ok {
			return n
		}
		return nil
	}
	switch x := i.v.(type) {
	case *symMap:
		return map[string]any{}
	case []value:
		return []any{}
	case symStr:
		return ""
	case symv:
		switch x.K {
		case types.Bool:
			return false
		case types.Float64:
			return float64(0)
		case types.Int64:
			return int64(0)
		}
		return 0
	}
	if i.t == nil {
		return nil
	}
	if n, ok := m.toNative(a); ok {
		return n
	}
	return nil
}

// stringerText: fmt calls String() on operands that have it (bkl's *Document
// and *file); the method is run by the engine.
func (m *Machine) stringerText(a value) value {
	i, ok := a.(iface)
	if !ok || i.t == nil {
		return a
	}
	if _, isErr := i.v.(*errObj); isErr {
		return a
	}
	if _, isPtr := i.t.Underlying().(*types.Pointer); !isPtr {
		if _, isNamed := i.t.(*types.Named); !isNamed {
			return a
		}
	}
	ms := m.prog.MethodSets.MethodSet(i.t)
	sel := ms.Lookup(nil, "String")
	if sel == nil {
		return a
	}
	fn := m.prog.MethodValue(sel)
	if fn == nil || m.isForeign(fn) {
		return a
	}
	r := m.call(nil, token.NoPos, fn, []value{i.v})
	return iface{tString, r}
}

func variadic(v value) []value {
	if v == nil {
		return nil
	}
	return v.([]value)
}

func fErrorf(m *Machine, fr *frame, pos token.Pos, args []value) value {
	format, ok := args[0].(string)
	if !ok {
		return m.mkErr("<symbolic format>", true)
	}
	res, wraps, ok := m.formatArgs(format, variadic(args[1]))
	var ws []value
	for _, w := range wraps {
		if errOf(w) != nil {
			ws = append(ws, w)
		}
	}
	if s, isStr := res.(string); ok && isStr {
		return m.mkErr(s, false, ws...)
	}
	return m.mkErr("<symbolic message: "+format+">", true, ws...)
}

func fSprintf(m *Machine, fr *frame, pos token.Pos, args []value) value {
	format, ok := args[0].(string)
	if !ok {
		unsupported("fmt.Sprintf with symbolic format")
	}
	res, _, ok := m.formatArgs(format, variadic(args[1]))
	if !ok {
		unsupported("fmt.Sprintf(%q) with symbolic operand not covered by the model", format)
	}
	return res
}

// ---- strings ----

func (m *Machine) hasPrefixTerm(s []*sym.Term, p string) *sym.Term {
	if len(s) < len(p) {
		return m.st.False()
	}
	cs := make([]*sym.Term, len(p))
	for i := 0; i < len(p); i++ {
		cs[i] = m.st.Eq(s[i], m.st.BVC(8, uint64(p[i])))
	}
	return m.st.And(cs...)
}

func (m *Machine) hasSuffixTerm(s []*sym.Term, p string) *sym.Term {
	if len(s) < len(p) {
		return m.st.False()
	}
	off := len(s) - len(p)
	cs := make([]*sym.Term, len(p))
	for i := 0; i < len(p); i++ {
		cs[i] = m.st.Eq(s[off+i], m.st.BVC(8, uint64(p[i])))
	}
	return m.st.And(cs...)
}

func concStr(v value, what string) string {
	s, ok := v.(string)
	if !ok {
		unsupported("%s: symbolic pattern argument", what)
	}
	return s
}

func bothConc(a, b value) (string, string, bool) {
	x, ok1 := a.(string)
	y, ok2 := b.(string)
	return x, y, ok1 && ok2
}

// prefixEq / suffixEq: s starts / ends with p, both possibly symbolic (their
// lengths are concrete).
func (m *Machine) prefixEq(s, p []*sym.Term) *sym.Term {
	if len(s) < len(p) {
		return m.st.False()
	}
	return m.strEq(s[:len(p)], p)
}

func (m *Machine) suffixEq(s, p []*sym.Term) *sym.Term {
	if len(s) < len(p) {
		return m.st.False()
	}
	return m.strEq(s[len(s)-len(p):], p)
}

func fHasPrefix(m *Machine, fr *frame, pos token.Pos, args []value) value {
	if x, y, ok := bothConc(args[0], args[1]); ok {
		return strings.HasPrefix(x, y)
	}
	s, _ := m.strTerms(args[0])
	p, _ := m.strTerms(args[1])
	return m.unsym(m.prefixEq(s, p), types.Bool)
}

func fHasSuffix(m *Machine, fr *frame, pos token.Pos, args []value) value {
	if x, y, ok := bothConc(args[0], args[1]); ok {
		return strings.HasSuffix(x, y)
	}
	s, _ := m.strTerms(args[0])
	p, _ := m.strTerms(args[1])
	return m.unsym(m.suffixEq(s, p), types.Bool)
}

func fTrimPrefix(m *Machine, fr *frame, pos token.Pos, args []value) value {
	if x, y, ok := bothConc(args[0], args[1]); ok {
		return strings.TrimPrefix(x, y)
	}
	s, _ := m.strTerms(args[0])
	p, _ := m.strTerms(args[1])
	if m.decide(m.prefixEq(s, p)) {
		return mkStr(s[len(p):])
	}
	return args[0]
}

func fTrimSuffix(m *Machine, fr *frame, pos token.Pos, args []value) value {
	if x, y, ok := bothConc(args[0], args[1]); ok {
		return strings.TrimSuffix(x, y)
	}
	s, _ := m.strTerms(args[0])
	p, _ := m.strTerms(args[1])
	if m.decide(m.suffixEq(s, p)) {
		return mkStr(s[:len(s)-len(p)])
	}
	return args[0]
}

// matchAt: s[i:i+len(p)] == p as a term.
func (m *Machine) matchAt(s []*sym.Term, i int, p string) *sym.Term {
	if i+len(p) > len(s) {
		return m.st.False()
	}
	return m.hasPrefixTerm(s[i:], p)
}

// splitPositions finds the leftmost non-overlapping occurrences of the
// constant p in s, each occurrence test being a solver-decided fork.
func (m *Machine) splitPositions(s []*sym.Term, p string, max int) []int {
	var pos []int
	if len(p) == 0 {
		unsupported("empty separator with symbolic string")
	}
	for i := 0; i+len(p) <= len(s); {
		if max >= 0 && len(pos) >= max {
			break
		}
		if m.decide(m.matchAt(s, i, p)) {
			pos = append(pos, i)
			i += len(p)
		} else {
			i++
		}
	}
	return pos
}

func fReplaceAll(m *Machine, fr *frame, pos token.Pos, args []value) value {
	return m.replaceN(args[0], args[1], args[2], -1)
}

func fReplace(m *Machine, fr *frame, pos token.Pos, args []value) value {
	n := int(m.concretizeInt(args[3], -1, 64))
	return m.replaceN(args[0], args[1], args[2], n)
}

func fContains(m *Machine, fr *frame, pos token.Pos, args []value) value {
	if x, y, ok := bothConc(args[0], args[1]); ok {
		return strings.Contains(x, y)
	}
	sub := concStr(args[1], "strings.Contains")
	bs, _ := m.strTerms(args[0])
	var alts []*sym.Term
	for i := 0; i+len(sub) <= len(bs); i++ {
		alts = append(alts, m.matchAt(bs, i, sub))
	}
	return m.unsym(m.st.Or(alts...), types.Bool)
}

func (m *Machine) replaceN(sv, oldv, newv value, n int) value {
	if x, ok := sv.(string); ok {
		if y, z, ok := bothConc(oldv, newv); ok {
			return strings.Replace(x, y, z, n)
		}
	}
	old := concStr(oldv, "strings.Replace")
	nw := concStr(newv, "strings.Replace")
	s, _ := m.strTerms(sv)
	if n == 0 {
		return sv
	}
	ps := m.splitPositions(s, old, n)
	nb, _ := m.strTerms(nw)
	var out []*sym.Term
	prev := 0
	for _, p := range ps {
		out = append(out, s[prev:p]...)
		out = append(out, nb...)
		prev = p + len(old)
	}
	out = append(out, s[prev:]...)
	return mkStr(out)
}

func (m *Machine) strSlice(parts []value) value {
	return parts
}

func fSplit(m *Machine, fr *frame, pos token.Pos, args []value) value {
	if x, y, ok := bothConc(args[0], args[1]); ok {
		var out []value
		for _, p := range strings.Split(x, y) {
			out = append(out, p)
		}
		return out
	}
	sep := concStr(args[1], "strings.Split")
	s, _ := m.strTerms(args[0])
	return m.splitN(s, sep, -1)
}

func (m *Machine) splitN(s []*sym.Term, sep string, n int) []value {
	max := -1
	if n > 0 {
		max = n - 1
	}
	ps := m.splitPositions(s, sep, max)
	var out []value
	prev := 0
	for _, p := range ps {
		out = append(out, mkStr(s[prev:p]))
		prev = p + len(sep)
	}
	out = append(out, mkStr(s[prev:]))
	return out
}

func fSplitN(m *Machine, fr *frame, pos token.Pos, args []value) value {
	n := int(m.concretizeInt(args[2], -1, 8))
	if x, y, ok := bothConc(args[0], args[1]); ok {
		var out []value
		for _, p := range strings.SplitN(x, y, n) {
			out = append(out, p)
		}
		return out
	}
	if n == 0 {
		return []value(nil)
	}
	sep := concStr(args[1], "strings.SplitN")
	s, _ := m.strTerms(args[0])
	return m.splitN(s, sep, n)
}

func fCount(m *Machine, fr *frame, pos token.Pos, args []value) value {
	if x, y, ok := bothConc(args[0], args[1]); ok {
		return strings.Count(x, y)
	}
	sep := concStr(args[1], "strings.Count")
	s, _ := m.strTerms(args[0])
	return len(m.splitPositions(s, sep, -1))
}

func fJoin(m *Machine, fr *frame, pos token.Pos, args []value) value {
	parts := args[0].([]value)
	sep, _ := m.strTerms(args[1])
	var out []*sym.Term
	for i, p := range parts {
		if i > 0 {
			out = append(out, sep...)
		}
		b, _ := m.strTerms(p)
		out = append(out, b...)
	}
	return mkStr(out)
}

// ---- utf8string / unicode ----

// runes decodes a (possibly symbolic) string into rune terms (BV32). Only
// 1- and 2-byte encodings are modelled for symbolic bytes; any other lead
// byte ends the path as outside the claimed alphabet.
func (m *Machine) runes(v value) []*sym.Term {
	st := m.st
	if s, ok := v.(string); ok {
		var out []*sym.Term
		for _, r := range s {
			out = append(out, st.BVC(32, uint64(r)))
		}
		return out
	}
	b := v.(symStr).B
	var out []*sym.Term
	for i := 0; i < len(b); {
		c := b[i]
		// a run of constant bytes is decoded by the real decoder (any
		// UTF-8 length); only symbolic bytes are limited to 1-2 byte forms
		if c.IsConst() && c.U >= 0x80 {
			var buf []byte
			for j := i; j < len(b) && j < i+4 && b[j].IsConst(); j++ {
				buf = append(buf, byte(b[j].U))
			}
			r, size := utf8.DecodeRune(buf)
			need := 1
			switch {
			case c.U >= 0xf0:
				need = 4
			case c.U >= 0xe0:
				need = 3
			case c.U >= 0xc2:
				need = 2
			}
			if r != utf8.RuneError || len(buf) >= need || i+len(buf) == len(b) {
				out = append(out, st.BVC(32, uint64(r)))
				i += size
				continue
			}
		}
		if m.decide(st.ULt(c, st.BVC(8, 0x80))) {
			out = append(out, st.ZExt(c, 32))
			i++
			continue
		}
		lead2 := st.And(st.ULe(st.BVC(8, 0xc2), c), st.ULe(c, st.BVC(8, 0xdf)))
		if m.decide(lead2) {
			if i+1 < len(b) {
				c2 := b[i+1]
				cont := st.And(st.ULe(st.BVC(8, 0x80), c2), st.ULe(c2, st.BVC(8, 0xbf)))
				if m.decide(cont) {
					hi := st.Shl(st.ZExt(st.BAnd(c, st.BVC(8, 0x1f)), 32), st.BVC(32, 6))
					lo := st.ZExt(st.BAnd(c2, st.BVC(8, 0x3f)), 32)
					out = append(out, st.BOr(hi, lo))
					i += 2
					continue
				}
			}
			out = append(out, st.BVC(32, 0xfffd))
			i++
			continue
		}
		// continuation byte or C0/C1/F5+ alone: RuneError, width 1
		lone := st.Or(st.ULt(c, st.BVC(8, 0xc2)), st.ULt(st.BVC(8, 0xf4), c))
		if m.decide(lone) {
			out = append(out, st.BVC(32, 0xfffd))
			i++
			continue
		}
		panic(pathEnd{kind: "outside", msg: "3/4-byte UTF-8 lead byte in symbolic string (outside the claimed alphabet)"})
	}
	return out
}

func fUtf8NewString(m *Machine, fr *frame, pos token.Pos, args []value) value {
	p := new(value)
	*p = opaque{kind: "utf8string", payload: &u8s{s: args[0]}}
	return p
}

type u8s struct {
	s     value
	runes []*sym.Term
	done  bool
}

func (m *Machine) u8(v value) *u8s {
	p := v.(*value)
	u := (*p).(opaque).payload.(*u8s)
	if !u.done {
		u.runes = m.runes(u.s)
		u.done = true
	}
	return u
}

func fUtf8RuneCount(m *Machine, fr *frame, pos token.Pos, args []value) value {
	return len(m.u8(args[0]).runes)
}

func fUtf8At(m *Machine, fr *frame, pos token.Pos, args []value) value {
	u := m.u8(args[0])
	i := int(m.concretizeInt(args[1], 0, 64))
	if i < 0 || i >= len(u.runes) {
		panic(targetPanic{msg: "utf8string: index out of range"})
	}
	return m.unsym(u.runes[i], types.Int32)
}

var lowerRanges [][2]rune

func init() {
	// exact table of unicode.IsLower below U+0800 (everything 1- and 2-byte
	// UTF-8 can encode), taken from the real unicode package at start-up.
	start := rune(-1)
	for r := rune(0); r <= 0x800; r++ {
		if r < 0x800 && unicode.IsLower(r) {
			if start < 0 {
				start = r
			}
		} else if start >= 0 {
			lowerRanges = append(lowerRanges, [2]rune{start, r - 1})
			start = -1
		}
	}
}

func fIsLower(m *Machine, fr *frame, pos token.Pos, args []value) value {
	if r, ok := args[0].(int32); ok {
		return unicode.IsLower(r)
	}
	t := args[0].(symv).T
	st := m.st
	var alts []*sym.Term
	for _, rg := range lowerRanges {
		alts = append(alts, st.And(st.ULe(st.BVC(32, uint64(rg[0])), t), st.ULe(t, st.BVC(32, uint64(rg[1])))))
	}
	// runes >= 0x800 cannot come out of the 2-byte decoder (0xfffd is not lower)
	return m.unsym(st.Or(alts...), types.Bool)
}

// ---- maps / slices ----

func fMapsClone(m *Machine, fr *frame, pos token.Pos, args []value) value {
	return m.mapClone(args[0].(*symMap))
}

func fMapsKeys(m *Machine, fr *frame, pos token.Pos, args []value) value {
	return opaque{kind: "mapkeys", payload: args[0].(*symMap)}
}

func fSlicesSorted(m *Machine, fr *frame, pos token.Pos, args []value) value {
	op, ok := args[0].(opaque)
	if !ok || op.kind != "mapkeys" {
		unsupported("slices.Sorted of something other than maps.Keys")
	}
	sm := op.payload.(*symMap)
	if sm == nil {
		return []value(nil)
	}
	return m.sortedKeys(sm)
}

func fSlicesClone(m *Machine, fr *frame, pos token.Pos, args []value) value {
	s := args[0].([]value)
	if s == nil {
		return []value(nil)
	}
	return append([]value{}, s...)
}

// ---- errors ----

func fErrorsIs(m *Machine, fr *frame, pos token.Pos, args []value) value {
	e, t := errOf(args[0]), errOf(args[1])
	if t == nil {
		// target is not an engine error (nil, or a foreign value such as a
		// syscall.Errno): interface equality along the wrap chain
		return m.errChainHas(args[0], args[1], 0)
	}
	return errIs(e, t)
}

func (m *Machine) errChainHas(v, target value, depth int) bool {
	if depth > 32 {
		return false
	}
	if m.truth(m.eqnil(m.shared.errorIface, v, target)) {
		return true
	}
	if e := errOf(v); e != nil {
		for _, w := range e.wraps {
			if m.errChainHas(w, target, depth+1) {
				return true
			}
		}
	}
	return false
}

func fErrorsJoin(m *Machine, fr *frame, pos token.Pos, args []value) value {
	var ws []value
	var msgs []string
	symb := false
	for _, e := range variadic(args[0]) {
		if eo := errOf(e); eo != nil {
			ws = append(ws, e)
			msgs = append(msgs, eo.msg)
			symb = symb || eo.sym
		} else if i, ok := e.(iface); ok && i.t != nil {
			ws = append(ws, e)
			msgs = append(msgs, "<foreign error>")
		}
	}
	if len(ws) == 0 {
		return iface{}
	}
	return m.mkErr(strings.Join(msgs, "\n"), symb, ws...)
}

func fErrorsNew(m *Machine, fr *frame, pos token.Pos, args []value) value {
	s, ok := args[0].(string)
	if !ok {
		return m.mkErr("<symbolic>", true)
	}
	return m.mkErr(s, false)
}

// ---- yaml (deepClone contract and concrete path parsing) ----

// cloneContract is the contract stub for yaml.Marshal followed by
// yaml.Unmarshal as used by bkl.deepClone: a structural deep copy with the
// type effects measured on the real library: int64 -> int; a float64 that is
// integral with |x| < 1e6 (strconv 'g' formatting without exponent) -> int;
// strings and bools unchanged; a map key "<<" is interpreted as a YAML merge
// key by the decoder (concrete sub-trees go through the real library).
func (m *Machine) cloneContract(v value) (value, value) {
	if n, ok := m.toNative(v); ok {
		// fully concrete: the real library decides
		yml, err := yaml.Marshal(n)
		if err != nil {
			return nil, m.mkErr(err.Error(), false)
		}
		var ret any
		if err := yaml.Unmarshal(yml, &ret); err != nil {
			return nil, m.mkErr(err.Error(), false)
		}
		return m.fromNativeYAML(ret), nil
	}
	switch x := v.(type) {
	case iface:
		if x.t == nil {
			return iface{}, nil
		}
		switch inner := x.v.(type) {
		case *symMap:
			out := m.newMap(tString)
			for _, e := range inner.live() {
				// a key equal to "<<" changes meaning in the round trip
				kb, _ := m.strTerms(e.k)
				if len(kb) == 2 {
					isMerge := m.strEq(kb, []*sym.Term{m.st.BVC(8, '<'), m.st.BVC(8, '<')})
					if m.decide(isMerge) {
						return m.cloneMergeKey(inner, e)
					}
				}
				cv, err := m.cloneContract(e.v)
				if err != nil {
					return nil, err
				}
				m.mapInsert(out, e.k, cv)
			}
			return iface{tMapSA, out}, nil
		case []value:
			out := make([]value, len(inner))
			for i, e := range inner {
				cv, err := m.cloneContract(e)
				if err != nil {
					return nil, err
				}
				out[i] = cv
			}
			return iface{tSliceA, out}, nil
		case symStr:
			return x, nil
		case symv:
			switch inner.K {
			case types.Int:
				return x, nil
			case types.Int64:
				return iface{tInt, symv{T: inner.T, K: types.Int}}, nil
			case types.Bool:
				return x, nil
			case types.Float64:
				return m.cloneFloat(inner.T), nil
			}
		}
	case symIface:
		s := x.s
		st := m.st
		// float kind with integral small value becomes int; int64 becomes int
		if m.decide(m.kindIs(s, skFloat)) {
			return m.cloneFloat(s.F), nil
		}
		if m.decide(m.kindIs(s, skInt64)) {
			return iface{tInt, m.unsym(s.I, types.Int)}, nil
		}
		_ = st
		return x, nil
	}
	unsupported("deepClone contract: value %T", v)
	return nil, nil
}

// cloneFloat: yaml writes floats with strconv 'g' (shortest); integral values
// with |x| < 1e6 print without exponent or point and come back as int
// (-0 comes back as int 0). NaN/Inf round-trip as floats.
func (m *Machine) cloneFloat(f *sym.Term) value {
	st := m.st
	integral := st.And(
		st.Not(st.FIsNaN(f)), st.Not(st.FIsInf(f)),
		st.FEq(st.FRTI(f), f),
		st.FLt(st.FAbs(f), st.FPC(1e6)),
	)
	if m.decide(integral) {
		return iface{tInt, m.unsym(st.FToSBV(f, 64), types.Int)}
	}
	// exponent-form integral floats ("1e+06") come back as float64
	return iface{tFloat64, m.unsym(f, types.Float64)}
}

// cloneMergeKey handles a map that contains the key "<<" on this path.
func (m *Machine) cloneMergeKey(sm *symMap, e mapEnt) (value, value) {
	// yaml decodes "<<: scalar" as an error ("map merge requires map or
	// sequence of maps as the value"); map / list values are merged into the
	// parent. Scalars are the case reachable with symbolic leaves.
	inner := e.v
	if i, ok := inner.(iface); ok {
		switch i.v.(type) {
		case *symMap, []value:
			m.under = true
			unsupported("deepClone contract: symbolic map containing a `<<` key with container value")
		}
	}
	return nil, m.mkErr("yaml: map merge requires map or sequence of maps as the value", false)
}

// fromNativeYAML converts what yaml.Unmarshal(&any) yields.
func (m *Machine) fromNativeYAML(x any) value {
	switch x := x.(type) {
	case map[any]any:
		unsupported("yaml produced map[any]any")
	case uint64:
		unsupported("yaml produced uint64")
	case map[string]any, []any, nil, bool, int, int64, float64, string:
		return m.fromNative(x)
	default:
		// time.Time etc.
		unsupported("yaml produced %T", x)
	}
	return nil
}

func fYamlMarshal(m *Machine, fr *frame, pos token.Pos, args []value) value {
	cl, err := m.cloneContract(args[0])
	if err != nil {
		// Marshal itself practically never fails; the failure belongs to
		// Unmarshal. Carry it in the opaque bytes.
		return tuple{opaque{kind: "yamlbytes", payload: &yamlBytes{err: err}}, iface{}}
	}
	return tuple{opaque{kind: "yamlbytes", payload: &yamlBytes{v: cl}}, iface{}}
}

type yamlBytes struct {
	v   value
	err value
}

func fYamlUnmarshal(m *Machine, fr *frame, pos token.Pos, args []value) value {
	out := args[1]
	var dst *value
	if i, ok := out.(iface); ok {
		dst, _ = i.v.(*value)
	}
	if dst == nil {
		unsupported("yaml.Unmarshal into %T", out)
	}
	switch in := args[0].(type) {
	case opaque:
		yb := in.payload.(*yamlBytes)
		if yb.err != nil {
			return yb.err
		}
		*dst = yb.v
		return iface{}
	case []value:
		bs := make([]byte, len(in))
		symbolic := false
		for i, b := range in {
			c, ok := b.(uint8)
			if !ok {
				symbolic = true
				break
			}
			bs[i] = c
		}
		if symbolic {
			*dst = m.yamlPlainScalar(in)
			return iface{}
		}
		var ret any
		if err := yaml.Unmarshal(bs, &ret); err != nil {
			return m.mkErr(err.Error(), false)
		}
		*dst = m.fromNativeYAML(ret)
		return iface{}
	}
	unsupported("yaml.Unmarshal input %T", args[0])
	return nil
}

// yamlPlainScalar: contract for yaml.Unmarshal of a symbolic text into an
// `any`, restricted to texts that are certainly plain string scalars: a
// letter followed by letters, digits, '_', '.', '-' and not one of YAML's
// bool/null words. Such a text decodes to itself. Any other symbolic text
// is outside the claimed alphabet (the path ends, counted as "outside").
func (m *Machine) yamlPlainScalar(in []value) value {
	st := m.st
	bs := make([]*sym.Term, len(in))
	for i, b := range in {
		bs[i] = m.term(b)
	}
	rng := func(b *sym.Term, lo, hi byte) *sym.Term {
		return st.And(st.ULe(st.BVC(8, uint64(lo)), b), st.ULe(b, st.BVC(8, uint64(hi))))
	}
	letter := func(b *sym.Term) *sym.Term { return st.Or(rng(b, 'a', 'z'), rng(b, 'A', 'Z')) }
	var cs []*sym.Term
	if len(bs) == 0 {
		panic(pathEnd{kind: "outside", msg: "empty symbolic text reaches the YAML reference parser"})
	}
	cs = append(cs, letter(bs[0]))
	for _, b := range bs[1:] {
		cs = append(cs, st.Or(letter(b), rng(b, '0', '9'), st.Eq(b, st.BVC(8, '_')), st.Eq(b, st.BVC(8, '.')), st.Eq(b, st.BVC(8, '-'))))
	}
	for _, w := range []string{"true", "True", "TRUE", "false", "False", "FALSE", "null", "Null", "NULL", "y", "Y", "n", "N", "yes", "Yes", "YES", "no", "No", "NO", "on", "On", "ON", "off", "Off", "OFF"} {
		wb, _ := m.strTerms(w)
		cs = append(cs, st.Not(m.strEq(bs, wb)))
	}
	if !m.decide(st.And(cs...)) {
		panic(pathEnd{kind: "outside", msg: "symbolic text that is not certainly a plain YAML string reaches the reference parser"})
	}
	return iface{tString, mkStr(bs)}
}

// ---- misc ----

func fNoop(m *Machine, fr *frame, pos token.Pos, args []value) value { return nil }

func fGetenv(m *Machine, fr *frame, pos token.Pos, args []value) value {
	name, ok := args[0].(string)
	if !ok {
		unsupported("os.Getenv(symbolic)")
	}
	for _, e := range m.env {
		if kv, ok := e.(string); ok && strings.HasPrefix(kv, name+"=") {
			return kv[len(name)+1:]
		}
	}
	return ""
}

func fEnviron(m *Machine, fr *frame, pos token.Pos, args []value) value {
	out := []value{}
	out = append(out, m.env...)
	return out
}

func fOpenRoot(m *Machine, fr *frame, pos token.Pos, args []value) value {
	p := new(value)
	path, _ := args[0].(string)
	*p = opaque{kind: "root", payload: &rootObj{path: path}}
	return tuple{p, iface{}}
}

type rootObj struct{ path string }

func fParseBool(m *Machine, fr *frame, pos token.Pos, args []value) value {
	s, ok := args[0].(string)
	if !ok {
		unsupported("strconv.ParseBool(symbolic)")
	}
	b, err := strconv.ParseBool(s)
	if err != nil {
		return tuple{false, m.mkErr(err.Error(), false)}
	}
	return tuple{b, iface{}}
}

// byteIs decides whether a (possibly symbolic) byte equals c.
func (m *Machine) byteIs(b *sym.Term, c byte) bool {
	return m.decide(m.st.Eq(b, m.st.BVC(8, uint64(c))))
}

// fFilepathBase / fFilepathExt on symbolic paths: exact scans from the end,
// each byte test a solver-decided fork (Unix separators).
func fFilepathBase(m *Machine, fr *frame, pos token.Pos, args []value) value {
	if s, ok := args[0].(string); ok {
		return filepath.Base(s)
	}
	b, _ := m.strTerms(args[0])
	// strip trailing slashes
	for len(b) > 0 && m.byteIs(b[len(b)-1], '/') {
		b = b[:len(b)-1]
	}
	if len(b) == 0 {
		return "/"
	}
	i := len(b) - 1
	for i >= 0 && !m.byteIs(b[i], '/') {
		i--
	}
	return mkStr(b[i+1:])
}
func fFilepathDir(m *Machine, fr *frame, pos token.Pos, args []value) value {
	return filepath.Dir(concStr(args[0], "filepath.Dir"))
}
func fFilepathExt(m *Machine, fr *frame, pos token.Pos, args []value) value {
	if s, ok := args[0].(string); ok {
		return filepath.Ext(s)
	}
	b, _ := m.strTerms(args[0])
	for i := len(b) - 1; i >= 0; i-- {
		if m.byteIs(b[i], '/') {
			break
		}
		if m.byteIs(b[i], '.') {
			return mkStr(b[i:])
		}
	}
	return ""
}
func fFilepathJoin(m *Machine, fr *frame, pos token.Pos, args []value) value {
	var parts []string
	for _, p := range variadic(args[0]) {
		parts = append(parts, concStr(p, "filepath.Join"))
	}
	return filepath.Join(parts...)
}

func init() {
	foreignTab = map[string]foreignFn{
		"fmt.Errorf":                    fErrorf,
		"fmt.Sprintf":                   fSprintf,
		"log.Printf":                    fNoop,
		"strings.HasPrefix":             fHasPrefix,
		"strings.HasSuffix":             fHasSuffix,
		"strings.TrimPrefix":            fTrimPrefix,
		"strings.TrimSuffix":            fTrimSuffix,
		"strings.ReplaceAll":            fReplaceAll,
		"strings.Replace":               fReplace,
		"strings.Contains":              fContains,
		"strings.Split":                 fSplit,
		"strings.SplitN":                fSplitN,
		"strings.Count":                 fCount,
		"strings.Join":                  fJoin,
		"maps.Clone":                    fMapsClone,
		"maps.Keys":                     fMapsKeys,
		"slices.Sorted":                 fSlicesSorted,
		"slices.Clone":                  fSlicesClone,
		"golang.org/x/exp/slices.Clone": fSlicesClone,
		"errors.Is":                     fErrorsIs,
		"errors.Join":                   fErrorsJoin,
		"errors.New":                    fErrorsNew,
		"gopkg.in/yaml.v3.Marshal":      fYamlMarshal,
		"gopkg.in/yaml.v3.Unmarshal":    fYamlUnmarshal,
		"os.Getenv":                     fGetenv,
		"os.Environ":                    fEnviron,
		"strconv.ParseBool":             fParseBool,
		"strconv.ParseInt":              fParseInt,
		"strconv.FormatFloat": func(m *Machine, fr *frame, pos token.Pos, args []value) value {
			if sv, ok := args[0].(symv); ok && sv.K == types.Float64 {
				f, okf := args[1].(uint8)
				p, okp := intBits(args[2])
				b, okb := intBits(args[3])
				if okf && okp && okb && f == 'g' && int64(p) == -1 && b == 64 {
					return numLit{isFloat: true, T: sv.T, gText: true}
				}
			}
			return m.callNativeGeneric("strconv.FormatFloat", strconv.FormatFloat, pos, args)
		},
		"strconv.FormatInt": func(m *Machine, fr *frame, pos token.Pos, args []value) value {
			if sv, ok := args[0].(symv); ok && isIntKind(sv.K) {
				if b, okb := intBits(args[1]); okb && b == 10 {
					return numLit{isFloat: false, T: m.st.SExt(sv.T, 64)}
				}
			}
			return m.callNativeGeneric("strconv.FormatInt", strconv.FormatInt, pos, args)
		},
		"strconv.ParseFloat":                         fParseFloat,
		"(*gopkg.in/yaml.v3.Node).ShortTag":          fYamlShortTag,
		"path/filepath.Base":                         fFilepathBase,
		"path/filepath.Dir":                          fFilepathDir,
		"path/filepath.Ext":                          fFilepathExt,
		"path/filepath.Join":                         fFilepathJoin,
		"unicode.IsLower":                            fIsLower,
		"regexp.MustCompile":                         fRegexpMustCompile,
		"(*encoding/base64.Encoding).EncodeToString": fB64EncodeToString,
		"crypto/sha256.New": func(m *Machine, fr *frame, pos token.Pos, args []value) value {
			return iface{t: m.shared.errorT, v: opaque{kind: "sha256", payload: &shaState{}}}
		},
		"crypto/sha256.Sum256": func(m *Machine, fr *frame, pos token.Pos, args []value) value {
			sum := sha256.Sum256(concBytes(m, args[0], "sha256 input"))
			return array(bytesValue(sum[:]))
		},
		"encoding/hex.EncodeToString": func(m *Machine, fr *frame, pos token.Pos, args []value) value {
			return hex.EncodeToString(concBytes(m, args[0], "hex input"))
		},
		"sort.Strings": func(m *Machine, fr *frame, pos token.Pos, args []value) value {
			xs := args[0].([]value)
			for i := 1; i < len(xs); i++ {
				for j := i; j > 0; j-- {
					lt := m.lessTerm(xs[j], xs[j-1])
					if !m.decide(lt) {
						break
					}
					xs[j], xs[j-1] = xs[j-1], xs[j]
				}
			}
			return nil
		},
		"(*regexp.Regexp).ReplaceAllStringFunc": fRegexpReplaceAllStringFunc,
		"(encoding/json.Number).Int64": func(m *Machine, fr *frame, pos token.Pos, args []value) value {
			if l, ok := args[0].(numLit); ok {
				return m.parseIntLit(l, 64)
			}
			n, err := json.Number(concStr(args[0], "json.Number.Int64")).Int64()
			if err != nil {
				return tuple{int64(0), m.mkErr(err.Error(), false)}
			}
			return tuple{n, iface{}}
		},
		"(encoding/json.Number).Float64": func(m *Machine, fr *frame, pos token.Pos, args []value) value {
			if l, ok := args[0].(numLit); ok {
				return m.parseFloatLit(l, 64)
			}
			f, err := json.Number(concStr(args[0], "json.Number.Float64")).Float64()
			if err != nil {
				return tuple{float64(0), m.mkErr(err.Error(), false)}
			}
			return tuple{f, iface{}}
		},
		"reflect.DeepEqual": func(m *Machine, fr *frame, pos token.Pos, args []value) value {
			return m.unsym(m.deepEqTerm(args[0], args[1], true), types.Bool)
		},
		"os.Exit": func(m *Machine, fr *frame, pos token.Pos, args []value) value {
			code := int(m.concretizeInt(args[0], 0, 255))
			m.exitCode = &code
			panic(pathEnd{kind: "exit", msg: fmt.Sprintf("os.Exit(%d)", code)})
		},
		"fmt.Fprintf": func(m *Machine, fr *frame, pos token.Pos, args []value) value {
			return m.fprint(args[0], func() value { return fSprintf(m, fr, pos, args[1:]) })
		},
		"fmt.Printf": func(m *Machine, fr *frame, pos token.Pos, args []value) value {
			return tuple{0, iface{}}
		},
		"fmt.Fprint": func(m *Machine, fr *frame, pos token.Pos, args []value) value {
			return m.fprint(args[0], func() value { return m.sprint(variadic(args[1]), false) })
		},
		"fmt.Fprintln": func(m *Machine, fr *frame, pos token.Pos, args []value) value {
			return m.fprint(args[0], func() value { return m.sprint(variadic(args[1]), true) })
		},
		"fmt.Print":    func(m *Machine, fr *frame, pos token.Pos, args []value) value { return tuple{0, iface{}} },
		"fmt.Println":  func(m *Machine, fr *frame, pos token.Pos, args []value) value { return tuple{0, iface{}} },
		"fmt.Sprint": func(m *Machine, fr *frame, pos token.Pos, args []value) value {
			return m.sprint(variadic(args[0]), false)
		},
		"fmt.Sprintln": func(m *Machine, fr *frame, pos token.Pos, args []value) value {
			return m.sprint(variadic(args[0]), true)
		},
		"(io/fs.FileMode).IsDir": func(m *Machine, fr *frame, pos token.Pos, args []value) value {
			u, _ := intBits(args[0])
			return u&(1<<31) != 0
		},
		"(io/fs.FileMode).IsRegular": func(m *Machine, fr *frame, pos token.Pos, args []value) value {
			u, _ := intBits(args[0])
			return u&0x8f280000 == 0 // fs.ModeType
		},
		"(io/fs.FileMode).Type": func(m *Machine, fr *frame, pos token.Pos, args []value) value {
			u, _ := intBits(args[0])
			return uint32(u) & 0x8f280000
		},
		"(io/fs.FileMode).Perm": func(m *Machine, fr *frame, pos token.Pos, args []value) value {
			u, _ := intBits(args[0])
			return uint32(u) & 0o777
		},
		// sync: the engine runs one goroutine, so locks are no-ops; Once runs
		// its function once per path; a Pool hands out a fresh object on
		// every Get (Put is dropped): whatever the pooled object carried
		// over from an earlier use is not modelled here - the native replay
		// sees it
		"(*sync.Mutex).Lock":      fNop,
		"(*sync.Mutex).Unlock":    fNop,
		"(*sync.Mutex).TryLock":   func(m *Machine, fr *frame, pos token.Pos, args []value) value { return true },
		"(*sync.RWMutex).Lock":    fNop,
		"(*sync.RWMutex).Unlock":  fNop,
		"(*sync.RWMutex).RLock":   fNop,
		"(*sync.RWMutex).RUnlock": fNop,
		"(*sync.Once).Do": func(m *Machine, fr *frame, pos token.Pos, args []value) value {
			p, _ := args[0].(*value)
			if m.onceDone == nil {
				m.onceDone = map[*value]bool{}
			}
			if !m.onceDone[p] {
				m.onceDone[p] = true
				m.call(fr, pos, args[1], nil)
			}
			return nil
		},
		"(*sync.Pool).Put":       fNop,
		"(*sync.WaitGroup).Add":  fNop,
		"(*sync.WaitGroup).Done": fNop,
		"(*sync.WaitGroup).Wait": fNop,
		"(*sync.WaitGroup).Go": func(m *Machine, fr *frame, pos token.Pos, args []value) value {
			m.call(fr, pos, args[1], nil)
			return nil
		},
		"(*sync.Pool).Get": func(m *Machine, fr *frame, pos token.Pos, args []value) value {
			p, _ := args[0].(*value)
			if p == nil {
				unsupported("sync.Pool.Get on nil")
			}
			st, ok := (*p).(structure)
			if !ok || len(st) == 0 {
				unsupported("sync.Pool layout")
			}
			newFn := st[len(st)-1] // New is the last field
			if newFn == nil {
				return iface{}
			}
			if cl, ok := newFn.(*closure); ok && cl == nil {
				return iface{}
			}
			return m.call(fr, pos, newFn, nil)
		},
		"reflect.ValueOf": func(m *Machine, fr *frame, pos token.Pos, args []value) value {
			return opaque{kind: "reflectvalue", payload: args[0]}
		},
		"(reflect.Value).Pointer": func(m *Machine, fr *frame, pos token.Pos, args []value) value {
			o, ok := args[0].(opaque)
			if !ok {
				unsupported("reflect.Value receiver %T", args[0])
			}
			v := o.payload
			if i, ok := v.(iface); ok {
				v = i.v
			}
			switch x := v.(type) {
			case *symMap:
				if x == nil {
					return uintptr(0)
				}
				return uintptr(reflect.ValueOf(x).Pointer())
			case []value:
				return uintptr(reflect.ValueOf(x).Pointer())
			case *value:
				return uintptr(reflect.ValueOf(x).Pointer())
			}
			unsupported("reflect.Value.Pointer of %T", v)
			return nil
		},
		"sort.Slice":                                      fSortSlice,
		"sort.SliceStable":                                fSortSlice,
		"golang.org/x/exp/utf8string.NewString":           fUtf8NewString,
		"(*golang.org/x/exp/utf8string.String).RuneCount": fUtf8RuneCount,
		"(*golang.org/x/exp/utf8string.String).At":        fUtf8At,
	}
}

// fprint: fmt.Fprint* into a strings.Builder / bytes.Buffer appends the
// formatted text to the modelled buffer; any other writer (stdout, stderr,
// files) is diagnostics and is dropped.
func (m *Machine) fprint(w value, text func() value) value {
	if i, ok := w.(iface); ok && i.t != nil {
		switch i.t.String() {
		case "*strings.Builder", "*bytes.Buffer":
			b := m.bufOf(i.v)
			ts, _ := m.strTerms(text())
			*b = append(*b, ts...)
			return tuple{len(ts), iface{}}
		}
	}
	return tuple{0, iface{}}
}

// sprint: fmt.Sprint adds a space between operands when neither is a string;
// fmt.Sprintln always, plus a newline.
func (m *Machine) sprint(ops []value, ln bool) value {
	isStr := func(v value) bool {
		i, ok := v.(iface)
		if !ok || i.t == nil {
			return false
		}
		b, ok := i.t.Underlying().(*types.Basic)
		return ok && b.Info()&types.IsString != 0
	}
	var f strings.Builder
	for i := range ops {
		if i > 0 && (ln || (!isStr(ops[i-1]) && !isStr(ops[i]))) {
			f.WriteByte(' ')
		}
		f.WriteString("%v")
	}
	if ln {
		f.WriteByte('\n')
	}
	res, _, ok := m.formatArgs(f.String(), ops)
	if !ok {
		unsupported("fmt.Sprint with a symbolic operand not covered by the model")
	}
	return res
}

// fSortSlice: sort.Slice / sort.SliceStable as a stable in-place insertion
// sort; less runs in the engine, so comparisons of symbolic elements fork.
// (sort.Slice does not promise an order for equal elements; the native run
// may order them differently.)
func fSortSlice(m *Machine, fr *frame, pos token.Pos, args []value) value {
	i, ok := args[0].(iface)
	if !ok {
		unsupported("sort.Slice of %T", args[0])
	}
	xs, ok := i.v.([]value)
	if !ok {
		if i.v == nil {
			return nil
		}
		unsupported("sort.Slice of %T", i.v)
	}
	less := args[1]
	for a := 1; a < len(xs); a++ {
		for b := a; b > 0; b-- {
			r := m.call(fr, pos, less, []value{b, b - 1})
			if !m.truth(r) {
				break
			}
			xs[b], xs[b-1] = xs[b-1], xs[b]
		}
	}
	return nil
}

func fNop(m *Machine, fr *frame, pos token.Pos, args []value) value { return nil }

func opaquePtr(kind string, payload any) *value {
	p := new(value)
	*p = opaque{kind: kind, payload: payload}
	return p
}

func opaqueOf(v value, kind string) any {
	p, ok := v.(*value)
	if !ok || p == nil {
		unsupported("expected %s object, got %T", kind, v)
	}
	o, ok := (*p).(opaque)
	if !ok || o.kind != kind {
		unsupported("expected %s object", kind)
	}
	return o.payload
}

func fRegexpMustCompile(m *Machine, fr *frame, pos token.Pos, args []value) value {
	return opaquePtr("regexp", regexp.MustCompile(concStr(args[0], "regexp.MustCompile")))
}

// fRegexpReplaceAllStringFunc: exact for concrete subjects (the real regexp
// finds the matches; the callback runs in the engine, so replacements may be
// symbolic). For symbolic subjects only the pattern `{.*?}` is modelled:
// leftmost match, lazy, `.` excludes newline.
func fRegexpReplaceAllStringFunc(m *Machine, fr *frame, pos token.Pos, args []value) value {
	re := opaqueOf(args[0], "regexp").(*regexp.Regexp)
	callback := args[2]
	var spans [][2]int
	subj := args[1]
	bs, _ := m.strTerms(subj)
	if cs, ok := subj.(string); ok {
		for _, ix := range re.FindAllStringIndex(cs, -1) {
			spans = append(spans, [2]int{ix[0], ix[1]})
		}
	} else {
		if re.String() != "{.*?}" {
			return regexTab["(*regexp.Regexp).ReplaceAllStringFunc"](m, fr, pos, args)
		}
		st := m.st
		for i := 0; i < len(bs); {
			if !m.decide(st.Eq(bs[i], st.BVC(8, '{'))) {
				i++
				continue
			}
			end := -1
			for k := i + 1; k < len(bs); k++ {
				if m.decide(st.Eq(bs[k], st.BVC(8, '}'))) {
					end = k
					break
				}
				if m.decide(st.Eq(bs[k], st.BVC(8, '\n'))) {
					break
				}
			}
			if end < 0 {
				i++
				continue
			}
			spans = append(spans, [2]int{i, end + 1})
			i = end + 1
		}
	}
	var out []*sym.Term
	prev := 0
	for _, sp := range spans {
		out = append(out, bs[prev:sp[0]]...)
		r := m.call(fr, pos, callback, []value{mkStr(bs[sp[0]:sp[1]])})
		rb, ok := m.strTerms(r)
		if !ok {
			unsupported("regexp callback returned %T", r)
		}
		out = append(out, rb...)
		prev = sp[1]
	}
	out = append(out, bs[prev:]...)
	return mkStr(out)
}

// ---- abstract numeric literals (C04) ----
//
// numLit is the text of a number as a decoder hands it over (json.Number,
// yaml.Node.Value): a string whose content is "the decimal spelling of this
// symbolic integer / the shortest spelling of this symbolic double". Only the
// number-parsing models look inside; they follow the documented contract of
// strconv.ParseInt / ParseFloat (range check per bitSize, round-to-nearest-
// even to float32 for bitSize 32).
type numLit struct {
	isFloat bool
	T       *sym.Term // BV64 or FP64
	// gText: the text was produced by strconv.FormatFloat(x, 'g', -1, 64):
	// an integral value below 1e6 in magnitude is spelled without point or
	// exponent (and parses as an integer); everything else has one.
	gText bool
}

func (m *Machine) parseIntLit(l numLit, bits int) value {
	st := m.st
	if l.isFloat {
		if l.gText {
			integral := st.And(st.Not(st.FIsNaN(l.T)), st.Not(st.FIsInf(l.T)),
				st.FEq(st.FRTI(l.T), l.T), st.FLt(st.FAbs(l.T), st.FPC(1e6)))
			if m.decide(integral) {
				return tuple{m.unsym(st.FToSBV(l.T, 64), types.Int64), iface{}}
			}
		}
		return tuple{int64(0), m.mkErr("strconv.ParseInt: invalid syntax", false)}
	}
	if bits == 0 || bits == 64 {
		return tuple{m.unsym(l.T, types.Int64), iface{}}
	}
	lo := st.BVC(64, uint64(-(int64(1) << (bits - 1))))
	hi := st.BVC(64, uint64((int64(1)<<(bits-1))-1))
	if m.decide(st.And(st.SLe(lo, l.T), st.SLe(l.T, hi))) {
		return tuple{m.unsym(l.T, types.Int64), iface{}}
	}
	// out of range: the nearest bound and ErrRange
	v := st.Ite(st.SLt(l.T, lo), lo, hi)
	return tuple{m.unsym(v, types.Int64), m.mkErr("strconv.ParseInt: value out of range", false)}
}

func (m *Machine) parseFloatLit(l numLit, bits int) value {
	st := m.st
	x := l.T
	if !l.isFloat {
		x = st.FFromSBV(l.T)
	}
	if bits == 32 {
		y := st.FTo64(st.FTo32(x))
		if m.decide(st.And(st.FIsInf(y), st.Not(st.FIsInf(x)))) {
			return tuple{m.unsym(y, types.Float64), m.mkErr("strconv.ParseFloat: value out of range", false)}
		}
		return tuple{m.unsym(y, types.Float64), iface{}}
	}
	return tuple{m.unsym(x, types.Float64), iface{}}
}

func fParseInt(m *Machine, fr *frame, pos token.Pos, args []value) value {
	base := int(m.concretizeInt(args[1], 0, 36))
	bits := int(m.concretizeInt(args[2], 0, 64))
	if l, ok := args[0].(numLit); ok {
		if base != 10 && base != 0 {
			unsupported("ParseInt of a numeric literal in base %d", base)
		}
		return m.parseIntLit(l, bits)
	}
	s := m.concretise(args[0], "strconv.ParseInt").(string)
	n, err := strconv.ParseInt(s, base, bits)
	if err != nil {
		return tuple{n, m.mkErr(err.Error(), false)}
	}
	return tuple{n, iface{}}
}

func fParseFloat(m *Machine, fr *frame, pos token.Pos, args []value) value {
	bits := int(m.concretizeInt(args[1], 0, 64))
	if l, ok := args[0].(numLit); ok {
		return m.parseFloatLit(l, bits)
	}
	s := m.concretise(args[0], "strconv.ParseFloat").(string)
	f, err := strconv.ParseFloat(s, bits)
	if err != nil {
		return tuple{f, m.mkErr(err.Error(), false)}
	}
	return tuple{f, iface{}}
}

// fYamlShortTag: (*yaml.Node).ShortTag for nodes with an explicit tag.
func fYamlShortTag(m *Machine, fr *frame, pos token.Pos, args []value) value {
	p := args[0].(*value)
	if p == nil {
		panic(targetPanic{msg: "nil *yaml.Node"})
	}
	st := (*p).(structure)
	nt := m.shared.yamlNodeT
	if nt == nil {
		unsupported("yaml.Node type not loaded")
	}
	tag := ""
	for i := 0; i < nt.NumFields(); i++ {
		if nt.Field(i).Name() == "Tag" {
			tag = concStr(st[i], "yaml.Node.Tag")
		}
	}
	if tag == "" {
		unsupported("yaml.Node without explicit tag (tag resolution is the parser's job)")
	}
	n := yaml.Node{Kind: yaml.ScalarNode, Tag: tag}
	return n.ShortTag()
}

// ---- strings.Builder / bytes.Buffer (state kept per object address) ----

func (m *Machine) bufOf(v value) *[]*sym.Term {
	p, ok := v.(*value)
	if !ok || p == nil {
		unsupported("builder/buffer receiver %T", v)
	}
	if m.bufs == nil {
		m.bufs = map[*value]*[]*sym.Term{}
	}
	b, ok := m.bufs[p]
	if !ok {
		b = &[]*sym.Term{}
		m.bufs[p] = b
	}
	return b
}

func init() {
	for _, recv := range []string{"(*strings.Builder)", "(*bytes.Buffer)"} {
		r := recv
		bufferTab[r+".WriteString"] = func(m *Machine, fr *frame, pos token.Pos, a []value) value {
			b := m.bufOf(a[0])
			t, ok := m.strTerms(a[1])
			if !ok {
				unsupported("%s.WriteString(%T)", r, a[1])
			}
			*b = append(*b, t...)
			return tuple{len(t), iface{}}
		}
		bufferTab[r+".WriteByte"] = func(m *Machine, fr *frame, pos token.Pos, a []value) value {
			b := m.bufOf(a[0])
			*b = append(*b, m.term(a[1]))
			return iface{}
		}
		bufferTab[r+".WriteRune"] = func(m *Machine, fr *frame, pos token.Pos, a []value) value {
			b := m.bufOf(a[0])
			rn, ok := a[1].(int32)
			if !ok {
				unsupported("%s.WriteRune(symbolic)", r)
			}
			t, _ := m.strTerms(string(rn))
			*b = append(*b, t...)
			return tuple{len(t), iface{}}
		}
		bufferTab[r+".Write"] = func(m *Machine, fr *frame, pos token.Pos, a []value) value {
			b := m.bufOf(a[0])
			bs, _ := a[1].([]value)
			for _, e := range bs {
				*b = append(*b, m.term(e))
			}
			return tuple{len(bs), iface{}}
		}
		bufferTab[r+".Len"] = func(m *Machine, fr *frame, pos token.Pos, a []value) value {
			return len(*m.bufOf(a[0]))
		}
		bufferTab[r+".String"] = func(m *Machine, fr *frame, pos token.Pos, a []value) value {
			return mkStr(*m.bufOf(a[0]))
		}
		bufferTab[r+".Reset"] = func(m *Machine, fr *frame, pos token.Pos, a []value) value {
			*m.bufOf(a[0]) = nil
			return nil
		}
		bufferTab[r+".Grow"] = func(m *Machine, fr *frame, pos token.Pos, a []value) value { return nil }
		bufferTab[r+".Bytes"] = func(m *Machine, fr *frame, pos token.Pos, a []value) value {
			b := *m.bufOf(a[0])
			out := make([]value, len(b))
			for i, t := range b {
				out[i] = m.unsym(t, types.Uint8)
			}
			return out
		}
	}
}

var bufferTab = map[string]foreignFn{}

// ---- encoding/base64, crypto/sha256, encoding/hex ----

var b64Encodings = map[string]*base64.Encoding{
	"StdEncoding": base64.StdEncoding, "URLEncoding": base64.URLEncoding,
	"RawStdEncoding": base64.RawStdEncoding, "RawURLEncoding": base64.RawURLEncoding,
}

// foreignGlobalInit gives package-level variables of dependencies that the
// code under test reads a meaningful identity (dependency init is not run).
var osErrNotExistObj = &errObj{msg: "file does not exist"}

func foreignGlobalInit(pkgPath, name string) (value, bool) {
	if pkgPath == "os" && name == "ErrNotExist" {
		return iface{t: errTypeForGlobals, v: osErrNotExistObj}, true
	}
	if pkgPath == "encoding/base64" {
		if e, ok := b64Encodings[name]; ok {
			return opaquePtr("b64enc", &b64enc{name: name, enc: e}), true
		}
	}
	return nil, false
}

type b64enc struct {
	name string
	enc  *base64.Encoding
}

// fB64EncodeToString: the real encoder on concrete bytes; on symbolic bytes an
// exact bit-level model of RFC 4648 for the four predefined encodings.
func fB64EncodeToString(m *Machine, fr *frame, pos token.Pos, args []value) value {
	e := opaqueOf(args[0], "b64enc").(*b64enc)
	in := args[1].([]value)
	conc := make([]byte, len(in))
	allConc := true
	for i, b := range in {
		c, ok := b.(uint8)
		if !ok {
			allConc = false
			break
		}
		conc[i] = c
	}
	if allConc {
		return e.enc.EncodeToString(conc)
	}
	st := m.st
	url := strings.Contains(e.name, "URL")
	pad := !strings.HasPrefix(e.name, "Raw")
	c8 := func(n uint64) *sym.Term { return st.BVC(8, n) }
	encode := func(v *sym.Term) *sym.Term {
		c62, c63 := uint64('+'), uint64('/')
		if url {
			c62, c63 = '-', '_'
		}
		return st.Ite(st.ULt(v, c8(26)), st.Add(c8('A'), v),
			st.Ite(st.ULt(v, c8(52)), st.Add(c8('a'), st.Sub(v, c8(26))),
				st.Ite(st.ULt(v, c8(62)), st.Add(c8('0'), st.Sub(v, c8(52))),
					st.Ite(st.Eq(v, c8(62)), c8(c62), c8(c63)))))
	}
	bt := make([]*sym.Term, len(in))
	for i, b := range in {
		bt[i] = m.term(b)
	}
	var out []*sym.Term
	for i := 0; i < len(bt); i += 3 {
		b0 := bt[i]
		b1, b2 := c8(0), c8(0)
		n := 1
		if i+1 < len(bt) {
			b1 = bt[i+1]
			n = 2
		}
		if i+2 < len(bt) {
			b2 = bt[i+2]
			n = 3
		}
		out = append(out, encode(st.LShr(b0, c8(2))))
		out = append(out, encode(st.BOr(st.Shl(st.BAnd(b0, c8(3)), c8(4)), st.LShr(b1, c8(4)))))
		if n >= 2 {
			out = append(out, encode(st.BOr(st.Shl(st.BAnd(b1, c8(15)), c8(2)), st.LShr(b2, c8(6)))))
		} else if pad {
			out = append(out, c8('='))
		}
		if n == 3 {
			out = append(out, encode(st.BAnd(b2, c8(63))))
		} else if pad {
			out = append(out, c8('='))
		}
	}
	return mkStr(out)
}

func concBytes(m *Machine, v value, what string) []byte {
	in, _ := v.([]value)
	out := make([]byte, len(in))
	for i, b := range in {
		c, ok := m.concretise(b, what).(uint8)
		if !ok {
			unsupported("%s: byte of type %T", what, b)
		}
		out[i] = c
	}
	return out
}

func bytesValue(b []byte) []value {
	out := make([]value, len(b))
	for i, c := range b {
		out[i] = c
	}
	return out
}

type shaState struct{ buf []byte }

func (m *Machine) opaqueMethod(o opaque, name string, args []value) value {
	switch name {
	case "Close":
		return iface{}
	}
	if o.kind == "fileinfo" {
		if r, ok := m.fileInfoMethod(o, name); ok {
			return r
		}
	}
	if o.kind == "sha256" {
		sh := o.payload.(*shaState)
		switch name {
		case "Write":
			b := concBytes(m, args[0], "sha256 input")
			sh.buf = append(sh.buf, b...)
			return tuple{len(b), iface{}}
		case "Sum":
			sum := sha256.Sum256(sh.buf)
			prefix, _ := args[0].([]value)
			return append(append([]value{}, prefix...), bytesValue(sum[:])...)
		}
	}
	unsupported("method %s on opaque %s", name, o.kind)
	return nil
}
