package exec

type vfs struct{}
