package exec

import (
	"bklsym/sym"
	"fmt"
	"go/token"
	"path/filepath"
	"sort"
	"strings"

	"golang.org/x/tools/go/ssa"
)

// Virtual file system (C03, C18, C20). The harness builds a directory tree
// with vfs* primitives; bkl's file code runs from its real SSA and every
// file-system call it makes is answered from this tree under the documented
// contracts:
//   os.Stat / filepath.Glob / filepath.EvalSymlinks   existence and link
//       structure as built (NOT confined to a root - as the real ones)
//   os.OpenRoot / (*os.Root).OpenRoot / (*os.Root).Open   fail when the
//       path is absolute or, resolved component by component INCLUDING
//       symlink targets, leaves the root directory (the os.Root guarantee)
//   io.ReadAll + Format.UnmarshalStream   yield the file's logical documents
//   os.Open / os.ReadFile   unconfined reads (recorded: bkl must not use them)
// Paths are concrete; document contents may be symbolic.

type vnode struct {
	kind   string // "file", "dir", "link"
	docs   []value
	target string // link target (as written: relative to the link's directory, or absolute)
	raw    value  // written content (OpenFile/CreateTemp), opaque
}

type vfs struct {
	cwd     string
	nodes   map[string]*vnode
	reads   []string // files whose content was obtained, with the way it was obtained
	writes  map[string]value
	tmpN    int
	args    []string
	path    map[string]string // exec.LookPath
	pathSym []value           // further names on PATH (possibly symbolic strings)
	execved *execRec
}

type execRec struct {
	path value
	argv []value
}

func (m *Machine) fs() *vfs {
	if m.vfs == nil {
		m.vfs = &vfs{cwd: "/w", nodes: map[string]*vnode{"/": {kind: "dir"}, "/w": {kind: "dir"}}, writes: map[string]value{}, path: map[string]string{}}
	}
	return m.vfs
}

func (v *vfs) abs(p string) string {
	if filepath.IsAbs(p) {
		return filepath.Clean(p)
	}
	return filepath.Join(v.cwd, p)
}

func (v *vfs) mkdirs(p string) {
	for d := filepath.Dir(p); ; d = filepath.Dir(d) {
		if _, ok := v.nodes[d]; !ok {
			v.nodes[d] = &vnode{kind: "dir"}
		}
		if d == "/" {
			return
		}
	}
}

// resolve follows symlinks in every component of the absolute path p.
// root != "" confines the walk: leaving root at any point fails.
func (v *vfs) resolve(p string, root string, depth int) (string, *vnode, error) {
	if depth > 16 {
		return "", nil, fmt.Errorf("too many levels of symbolic links")
	}
	p = filepath.Clean(p)
	if root != "" && !within(p, root) {
		return "", nil, fmt.Errorf("path escapes from parent")
	}
	parts := strings.Split(strings.TrimPrefix(p, "/"), "/")
	cur := "/"
	for i, part := range parts {
		if part == "" {
			continue
		}
		next := filepath.Join(cur, part)
		n, ok := v.nodes[next]
		if !ok {
			return "", nil, errNotExist
		}
		if n.kind == "link" {
			t := n.target
			if !filepath.IsAbs(t) {
				t = filepath.Join(cur, t)
			} else if root != "" {
				// os.Root: an absolute link target is outside the root by definition
				return "", nil, fmt.Errorf("path escapes from parent")
			}
			rest := filepath.Join(parts[i+1:]...)
			return v.resolve(filepath.Join(t, rest), root, depth+1)
		}
		if root != "" && !within(next, root) && !within(root, next) {
			return "", nil, fmt.Errorf("path escapes from parent")
		}
		cur = next
	}
	return cur, v.nodes[cur], nil
}

// resolveInRoot resolves rel against the root directory the way os.Root
// does: component by component, ".." may never step above the root (even if
// a later component would come back in), symlinks are followed and must stay
// inside as well.
func (v *vfs) resolveInRoot(root, rel string, depth int) (string, *vnode, error) {
	// os.Root follows at most 8 symbolic links per operation (rootMaxSymlinks)
	// and then fails with syscall.ELOOP, before looking at the next target
	if depth > 8 {
		return "", nil, errELOOP
	}
	cur := root
	parts := strings.Split(rel, "/")
	for i, part := range parts {
		switch part {
		case "", ".":
			continue
		case "..":
			if cur == root {
				return "", nil, fmt.Errorf("path escapes from parent")
			}
			cur = filepath.Dir(cur)
			continue
		}
		next := filepath.Join(cur, part)
		n, ok := v.nodes[next]
		if !ok {
			return "", nil, errNotExist
		}
		if n.kind == "link" {
			if filepath.IsAbs(n.target) {
				return "", nil, fmt.Errorf("path escapes from parent")
			}
			// the link target is resolved relative to the link's directory,
			// still confined to the root
			relDir, err := filepath.Rel(root, cur)
			if err != nil {
				return "", nil, err
			}
			// uncleaned on purpose: ".." components of the target are
			// walked one by one from the link's directory
			cont := n.target + "/" + strings.Join(parts[i+1:], "/")
			if relDir != "." {
				cont = relDir + "/" + cont
			}
			return v.resolveInRoot(root, cont, depth+1)
		}
		cur = next
	}
	return cur, v.nodes[cur], nil
}

// fileInfoMethod: the methods of the os.FileInfo values handed out by the
// virtual os.Stat / os.Lstat / (*os.Root).Stat.
func (m *Machine) fileInfoMethod(o opaque, name string) (value, bool) {
	p, _ := o.payload.(string)
	lstat := strings.HasPrefix(p, "lstat:")
	p = strings.TrimPrefix(p, "lstat:")
	v := m.fs()
	var n *vnode
	if lstat {
		if rdir, _, err := v.resolve(filepath.Dir(p), "", 0); err == nil {
			n = v.nodes[filepath.Join(rdir, filepath.Base(p))]
		}
	} else {
		_, n, _ = v.resolve(v.abs(p), "", 0)
	}
	if n == nil {
		return nil, false
	}
	var mode uint32 = 0o644
	switch n.kind {
	case "dir":
		mode = 1<<31 | 0o755 // fs.ModeDir
	case "link":
		mode = 1<<27 | 0o777 // fs.ModeSymlink
	}
	switch name {
	case "Mode":
		return mode, true
	case "IsDir":
		return n.kind == "dir", true
	case "Name":
		return filepath.Base(p), true
	case "Size":
		return int64(0), true
	}
	return nil, false
}

var errNotExist = fmt.Errorf("no such file or directory")
var errELOOP = fmt.Errorf("too many levels of symbolic links")

// rootErr builds the error of a failed os.Root operation; ELOOP is wrapped as
// the real syscall.Errno so that errors.Is(err, syscall.ELOOP) holds.
func (m *Machine) rootErr(op, rel string, err error) value {
	if err == errELOOP {
		if p := m.shared.Pkgs["syscall"]; p != nil {
			if t, ok := p.Members["Errno"].(*ssa.Type); ok {
				return m.mkErr(op+" "+rel+": "+err.Error(), false, iface{t: t.Type(), v: uintptr(40)})
			}
		}
	}
	return m.mkErr(op+" "+rel+": "+err.Error(), false)
}

func within(p, root string) bool {
	if root == "/" {
		return true
	}
	return p == root || strings.HasPrefix(p, root+"/")
}

type rootHandle struct{ path string }
type fileHandle struct {
	path  string
	write bool
}
type fileBytes struct{ path string }

func (m *Machine) notExistErr(p string) value {
	return m.mkErr("stat "+p+": no such file or directory", false, m.osErrNotExist())
}

func (m *Machine) osErrNotExist() value {
	if m.shared.Pkgs["os"] == nil {
		return iface{}
	}
	g, _ := m.shared.Pkgs["os"].Members["ErrNotExist"].(*ssa.Global)
	if g == nil {
		return iface{}
	}
	return *m.global(g)
}

func init() {
	reg := func(name string, f foreignFn) { vfsTab[name] = f }
	reg("path/filepath.Abs", func(m *Machine, fr *frame, pos token.Pos, a []value) value {
		return tuple{m.fs().abs(concStr(a[0], "filepath.Abs")), iface{}}
	})
	reg("path/filepath.Rel", func(m *Machine, fr *frame, pos token.Pos, a []value) value {
		r, err := filepath.Rel(concStr(a[0], "filepath.Rel"), concStr(a[1], "filepath.Rel"))
		if err != nil {
			return tuple{"", m.mkErr(err.Error(), false)}
		}
		return tuple{r, iface{}}
	})
	reg("os.Stat", func(m *Machine, fr *frame, pos token.Pos, a []value) value {
		if ss, ok := a[0].(symStr); ok {
			// a symbolic path exists iff it equals the (cwd-relative or
			// absolute) name of an entry; each comparison is solver-decided
			v := m.fs()
			var names []string
			for p := range v.nodes {
				names = append(names, p)
				if rel, err := filepath.Rel(v.cwd, p); err == nil && !strings.HasPrefix(rel, "..") {
					names = append(names, rel)
				}
			}
			sort.Strings(names)
			for _, n := range names {
				nb, _ := m.strTerms(n)
				if m.decide(m.strEq(ss.B, nb)) {
					return tuple{iface{t: m.shared.errorT, v: opaque{kind: "fileinfo", payload: n}}, iface{}}
				}
			}
			return tuple{iface{}, m.notExistErr("<symbolic>")}
		}
		p := m.fs().abs(concStr(a[0], "os.Stat"))
		if _, _, err := m.fs().resolve(p, "", 0); err != nil {
			return tuple{iface{}, m.notExistErr(p)}
		}
		return tuple{iface{t: m.shared.errorT, v: opaque{kind: "fileinfo", payload: p}}, iface{}}
	})
	reg("path/filepath.Glob", func(m *Machine, fr *frame, pos token.Pos, a []value) value {
		v := m.fs()
		pat := concStr(a[0], "filepath.Glob")
		absPat := v.abs(pat)
		dir := filepath.Dir(absPat)
		rdir, _, err := v.resolve(dir, "", 0)
		out := []value{}
		if err == nil {
			var names []string
			for p := range v.nodes {
				if filepath.Dir(p) == rdir && p != "/" {
					if ok, _ := filepath.Match(filepath.Base(absPat), filepath.Base(p)); ok {
						names = append(names, filepath.Join(filepath.Dir(pat), filepath.Base(p)))
					}
				}
			}
			sort.Strings(names)
			for _, n := range names {
				out = append(out, n)
			}
		}
		if _, err := filepath.Match(filepath.Base(absPat), "x"); err != nil {
			return tuple{[]value(nil), m.mkErr(err.Error(), false)}
		}
		return tuple{out, iface{}}
	})
	reg("path/filepath.EvalSymlinks", func(m *Machine, fr *frame, pos token.Pos, a []value) value {
		v := m.fs()
		p := concStr(a[0], "filepath.EvalSymlinks")
		rp, _, err := v.resolve(v.abs(p), "", 0)
		if err != nil {
			return tuple{"", m.notExistErr(p)}
		}
		if !filepath.IsAbs(p) {
			// the real function keeps relative paths relative
			if rel, err := filepath.Rel(v.cwd, rp); err == nil {
				rp = rel
			}
		}
		return tuple{rp, iface{}}
	})
	reg("os.OpenRoot", func(m *Machine, fr *frame, pos token.Pos, a []value) value {
		v := m.fs()
		p := v.abs(concStr(a[0], "os.OpenRoot"))
		rp, n, err := v.resolve(p, "", 0)
		if err != nil || n.kind != "dir" {
			return tuple{(*value)(nil), m.notExistErr(p)}
		}
		return tuple{opaquePtr("root", &rootHandle{path: rp}), iface{}}
	})
	reg("(*os.Root).OpenRoot", func(m *Machine, fr *frame, pos token.Pos, a []value) value {
		v := m.fs()
		r := opaqueOf(a[0], "root").(*rootHandle)
		rel := concStr(a[1], "Root.OpenRoot")
		if filepath.IsAbs(rel) {
			return tuple{(*value)(nil), m.mkErr("openat "+rel+": path escapes from parent", false)}
		}
		rp, n, err := v.resolveInRoot(r.path, rel, 0)
		if err != nil {
			return tuple{(*value)(nil), m.rootErr("openat", rel, err)}
		}
		if n.kind != "dir" {
			return tuple{(*value)(nil), m.mkErr("openat "+rel+": not a directory", false)}
		}
		return tuple{opaquePtr("root", &rootHandle{path: rp}), iface{}}
	})
	reg("(*os.Root).Open", func(m *Machine, fr *frame, pos token.Pos, a []value) value {
		v := m.fs()
		r := opaqueOf(a[0], "root").(*rootHandle)
		rel := concStr(a[1], "Root.Open")
		if filepath.IsAbs(rel) {
			return tuple{(*value)(nil), m.mkErr("openat "+rel+": path escapes from parent", false)}
		}
		rp, n, err := v.resolveInRoot(r.path, rel, 0)
		if err != nil {
			return tuple{(*value)(nil), m.rootErr("openat", rel, err)}
		}
		if n.kind != "file" {
			return tuple{(*value)(nil), m.mkErr("openat "+rel+": is a directory", false)}
		}
		v.reads = append(v.reads, "root:"+rp)
		return tuple{opaquePtr("file", &fileHandle{path: rp}), iface{}}
	})
	unconfined := func(name string) foreignFn {
		return func(m *Machine, fr *frame, pos token.Pos, a []value) value {
			v := m.fs()
			p := v.abs(concStr(a[0], name))
			rp, n, err := v.resolve(p, "", 0)
			if err != nil || n.kind != "file" {
				if name == "os.ReadFile" {
					return tuple{[]value(nil), m.notExistErr(p)}
				}
				return tuple{(*value)(nil), m.notExistErr(p)}
			}
			v.reads = append(v.reads, "unconfined:"+rp)
			if name == "os.ReadFile" {
				return tuple{opaque{kind: "filebytes", payload: &fileBytes{path: rp}}, iface{}}
			}
			return tuple{opaquePtr("file", &fileHandle{path: rp}), iface{}}
		}
	}
	// os.Readlink / os.Lstat look at the last component itself (parent
	// directories are resolved), unconfined like os.Stat
	lastComponent := func(v *vfs, p string) (*vnode, bool) {
		p = v.abs(p)
		rdir, _, err := v.resolve(filepath.Dir(p), "", 0)
		if err != nil {
			return nil, false
		}
		n, ok := v.nodes[filepath.Join(rdir, filepath.Base(p))]
		return n, ok
	}
	reg("os.Readlink", func(m *Machine, fr *frame, pos token.Pos, a []value) value {
		p := concStr(a[0], "os.Readlink")
		n, ok := lastComponent(m.fs(), p)
		if !ok {
			return tuple{"", m.notExistErr(p)}
		}
		if n.kind != "link" {
			return tuple{"", m.mkErr("readlink "+p+": invalid argument", false)}
		}
		return tuple{n.target, iface{}}
	})
	reg("os.Lstat", func(m *Machine, fr *frame, pos token.Pos, a []value) value {
		p := concStr(a[0], "os.Lstat")
		if _, ok := lastComponent(m.fs(), p); !ok {
			return tuple{iface{}, m.notExistErr(p)}
		}
		return tuple{iface{t: m.shared.errorT, v: opaque{kind: "fileinfo", payload: "lstat:" + m.fs().abs(p)}}, iface{}}
	})
	reg("(*os.Root).Stat", func(m *Machine, fr *frame, pos token.Pos, a []value) value {
		v := m.fs()
		r := opaqueOf(a[0], "root").(*rootHandle)
		rel := concStr(a[1], "Root.Stat")
		if filepath.IsAbs(rel) {
			return tuple{iface{}, m.mkErr("statat "+rel+": path escapes from parent", false)}
		}
		rp, _, err := v.resolveInRoot(r.path, rel, 0)
		if err != nil {
			return tuple{iface{}, m.rootErr("statat", rel, err)}
		}
		return tuple{iface{t: m.shared.errorT, v: opaque{kind: "fileinfo", payload: rp}}, iface{}}
	})
	reg("os.Open", unconfined("os.Open"))
	reg("os.ReadFile", unconfined("os.ReadFile"))
	reg("io.ReadAll", func(m *Machine, fr *frame, pos token.Pos, a []value) value {
		i, ok := a[0].(iface)
		if !ok || i.t == nil {
			unsupported("io.ReadAll of %T", a[0])
		}
		p, ok := i.v.(*value)
		if !ok || p == nil {
			unsupported("io.ReadAll: reader %T (stdin is outside the claim)", i.v)
		}
		fh := opaqueOf(p, "file").(*fileHandle)
		return tuple{opaque{kind: "filebytes", payload: &fileBytes{path: fh.path}}, iface{}}
	})
	reg("(*os.File).Close", func(m *Machine, fr *frame, pos token.Pos, a []value) value { return iface{} })
	reg("(*os.File).Name", func(m *Machine, fr *frame, pos token.Pos, a []value) value {
		return opaqueOf(a[0], "file").(*fileHandle).path
	})
	reg("(*os.File).Write", func(m *Machine, fr *frame, pos token.Pos, a []value) value {
		fh := opaqueOf(a[0], "file").(*fileHandle)
		m.fs().writes[fh.path] = a[1]
		if n, ok := m.fs().nodes[fh.path]; ok {
			n.raw = a[1]
		}
		if bs, ok := a[1].([]value); ok {
			return tuple{len(bs), iface{}}
		}
		return tuple{0, iface{}}
	})
	reg("os.OpenFile", func(m *Machine, fr *frame, pos token.Pos, a []value) value {
		v := m.fs()
		p := v.abs(concStr(a[0], "os.OpenFile"))
		if _, ok := v.nodes[filepath.Dir(p)]; !ok {
			return tuple{(*value)(nil), m.notExistErr(p)}
		}
		if _, ok := v.nodes[p]; !ok {
			v.nodes[p] = &vnode{kind: "file"}
		}
		return tuple{opaquePtr("file", &fileHandle{path: p, write: true}), iface{}}
	})
	reg("os.CreateTemp", func(m *Machine, fr *frame, pos token.Pos, a []value) value {
		v := m.fs()
		pat, isConc := a[1].(string)
		if !isConc {
			// a pattern with symbolic bytes (the program name is part of it):
			// the file gets a neutral name that keeps the pattern's constant
			// tail (the extension); the name itself is not observable through
			// the properties checked
			bs, _ := m.strTerms(a[1])
			i := len(bs)
			for i > 0 && bs[i-1].IsConst() && bs[i-1].U != '*' {
				i--
			}
			pat = "sym*" + mkStr(bs[i:]).(string)
		}
		v.tmpN++
		name := strings.Replace(pat, "*", fmt.Sprintf("tmp%d", v.tmpN), 1)
		if !strings.Contains(pat, "*") {
			name = pat + fmt.Sprintf("tmp%d", v.tmpN)
		}
		p := filepath.Join("/tmp", name)
		v.mkdirs(p)
		v.nodes[p] = &vnode{kind: "file"}
		return tuple{opaquePtr("file", &fileHandle{path: p, write: true}), iface{}}
	})
	reg("os/exec.LookPath", func(m *Machine, fr *frame, pos token.Pos, a []value) value {
		if name, ok := a[0].(string); ok {
			if p, ok := m.fs().path[name]; ok {
				return tuple{p, iface{}}
			}
		}
		nb, _ := m.strTerms(a[0])
		for _, r := range m.fs().pathSym {
			rb, _ := m.strTerms(r)
			if len(rb) != len(nb) {
				continue
			}
			c := m.strEq(rb, nb)
			if c.IsTrue() || (!c.IsFalse() && m.decide(c)) {
				pre, _ := m.strTerms("/usr/bin/")
				return tuple{mkStr(append(append([]*sym.Term{}, pre...), nb...)), iface{}}
			}
		}
		return tuple{"", m.mkErr("exec: executable file not found in $PATH", false)}
	})
	reg("syscall.Exec", func(m *Machine, fr *frame, pos token.Pos, a []value) value {
		m.fs().execved = &execRec{path: a[0], argv: a[1].([]value)}
		m.exitOK = true
		panic(pathEnd{kind: "exec", msg: "syscall.Exec"})
	})
	reg("golang.org/x/exp/slices.Clone", fSlicesClone)
	reg("runtime/debug.ReadBuildInfo", func(m *Machine, fr *frame, pos token.Pos, a []value) value {
		return tuple{(*value)(nil), false}
	})
}

var vfsTab = map[string]foreignFn{}

// ---- harness primitives ----

func init() {
	intrinsicsVFS = map[string]intrinsicFn{
		"vfsReset": func(m *Machine, fr *frame, fn *ssa.Function, a []value) value {
			m.vfs = nil
			m.fs()
			return nil
		},
		"vfsAddFile": func(m *Machine, fr *frame, fn *ssa.Function, a []value) value {
			v := m.fs()
			p := v.abs(concStr(a[0], "vfsAddFile"))
			v.mkdirs(p)
			var docs []value
			for _, d := range variadic(a[1]) {
				docs = append(docs, m.snapshot(d))
			}
			v.nodes[p] = &vnode{kind: "file", docs: docs}
			return nil
		},
		"vfsAddSymlink": func(m *Machine, fr *frame, fn *ssa.Function, a []value) value {
			v := m.fs()
			p := v.abs(concStr(a[0], "vfsAddSymlink"))
			v.mkdirs(p)
			v.nodes[p] = &vnode{kind: "link", target: concStr(a[1], "vfsAddSymlink")}
			return nil
		},
		"vfsAddDir": func(m *Machine, fr *frame, fn *ssa.Function, a []value) value {
			v := m.fs()
			p := v.abs(concStr(a[0], "vfsAddDir"))
			v.mkdirs(p)
			v.nodes[p] = &vnode{kind: "dir"}
			return nil
		},
		"vfsAbs": func(m *Machine, fr *frame, fn *ssa.Function, a []value) value {
			return m.fs().abs(concStr(a[0], "vfsAbs"))
		},
		"vfsChdir": func(m *Machine, fr *frame, fn *ssa.Function, a []value) value {
			v := m.fs()
			v.cwd = v.abs(concStr(a[0], "vfsChdir"))
			return nil
		},
		"vRunWrapper": func(m *Machine, fr *frame, fn *ssa.Function, a []value) value {
			return m.runWrapper(fr, a)
		},
		"vRunMain": func(m *Machine, fr *frame, fn *ssa.Function, a []value) value {
			return m.runMain(fr, fn, a)
		},
		"vfsUnconfinedReads": func(m *Machine, fr *frame, fn *ssa.Function, a []value) value {
			n := 0
			for _, r := range m.fs().reads {
				if strings.HasPrefix(r, "unconfined:") {
					n++
				}
			}
			return n
		},
		"vfsReadsOutside": func(m *Machine, fr *frame, fn *ssa.Function, a []value) value {
			root := m.fs().abs(concStr(a[0], "vfsReadsOutside"))
			n := 0
			for _, r := range m.fs().reads {
				p := r[strings.IndexByte(r, ':')+1:]
				if !within(p, root) {
					n++
				}
			}
			return n
		},
	}
}

var intrinsicsVFS map[string]intrinsicFn

// vfileDocs returns fresh copies of the logical documents of a virtual file.
func (m *Machine) vfileDocs(fb *fileBytes) []value {
	n := m.fs().nodes[fb.path]
	out := make([]value, len(n.docs))
	for i, d := range n.docs {
		out[i] = m.snapshot(d)
	}
	return out
}

// runWrapper(cmd string, found bool, args ...string) (code int, argv []string, contents []string)
// runs wrapper.WrapOrDie(cmd) with os.Args = ["bklb", args...], PATH lookup
// succeeding or not, and reports what reached syscall.Exec: code -1 and the
// argv (contents[i] = what the wrapper wrote to the file named argv[i], ""
// if it wrote none), or the exit code.
func (m *Machine) runWrapper(fr *frame, a []value) value {
	cmd := concStr(a[0], "vRunWrapper")
	found := a[1].(bool)
	args := variadic(a[2])
	v := m.fs()
	if found {
		v.path[cmd] = "/usr/bin/" + cmd
	}
	wp := m.shared.Pkgs[m.shared.RootPath+"/wrapper"]
	if wp == nil || wp.Func("WrapOrDie") == nil {
		unsupported("wrapper.WrapOrDie not loaded")
	}
	return m.runProgram(fr, "bklb", args, wp.Func("WrapOrDie"), []value{cmd})
}

// runMain(argv0 string, cmd string, args ...string): cmd/bklb's main started
// under the name argv0, with cmd (possibly a symbolic string; "" = nothing)
// present on PATH.
func (m *Machine) runMain(fr *frame, fn *ssa.Function, a []value) value {
	v := m.fs()
	if s, ok := a[1].(string); !ok || s != "" {
		v.pathSym = append(v.pathSym, a[1])
	}
	mainFn := fn.Pkg.Func("main")
	if mainFn == nil {
		unsupported("package main has no main")
	}
	return m.runProgram(fr, a[0], variadic(a[2]), mainFn, nil)
}

func (m *Machine) runProgram(fr *frame, argv0 value, args []value, entry *ssa.Function, entryArgs []value) value {
	v := m.fs()
	v.execved = nil
	osPkg := m.shared.Pkgs["os"]
	g, _ := osPkg.Members["Args"].(*ssa.Global)
	if g == nil {
		unsupported("os.Args not found")
	}
	*m.global(g) = append([]value{argv0}, args...)
	code := -2
	func() {
		defer func() {
			r := recover()
			if r == nil {
				return
			}
			pe, ok := r.(pathEnd)
			if !ok || (pe.kind != "exit" && pe.kind != "exec") {
				panic(r)
			}
			if pe.kind == "exec" {
				code = -1
			} else if m.exitCode != nil {
				code = *m.exitCode
			}
		}()
		m.call(fr, token.NoPos, entry, entryArgs)
	}()
	argv := []value{}
	contents := []value{}
	if code == -1 && v.execved != nil {
		for _, e := range v.execved.argv {
			argv = append(argv, e)
			c := value("")
			if s, ok := e.(string); ok {
				if w, ok := v.writes[s]; ok {
					if bs, ok := w.([]value); ok {
						bt := make([]byte, 0, len(bs))
						okb := true
						for _, b := range bs {
							u, isU := b.(uint8)
							if !isU {
								okb = false
								break
							}
							bt = append(bt, u)
						}
						if okb {
							c = string(bt)
						}
					}
				}
			}
			contents = append(contents, c)
		}
	}
	return tuple{code, argv, contents}
}
