package exec

import (
	"fmt"
	"go/types"
	"math"
	"math/bits"
	"strings"

	"bklsym/sym"

	"golang.org/x/tools/go/ssa"
)

const forcedFlag = int32(1) << 30

type Config struct {
	MaxSteps    int // instruction budget per path
	MaxFrames   int // call-depth budget per path
	OrderMode   bool
	OrderBudget int
	Trace       bool
}

type ndRec struct {
	Kind  string // choice,int,int64,bool,float,str,scalar
	Terms []*sym.Term
	N     int    // choice: arity; str: length
	Val   int    // choice: value taken
	Class string // str
	Sc    *symScalar
}

type obsRec struct {
	Tag string
	Val value
}

// Candidate is a potential violation found on a path; it is only reported
// after native replay confirms it.
type Candidate struct {
	Harness   string
	Kind      string // assert, panic, fuel, frames
	AssertID  string
	Msg       string
	Pos       string
	Decisions []int32
	ND        []NDValue
	Observes  map[string]string
	ModelOK   bool
}

// NDValue is one concrete nondeterministic input of a replay vector.
type NDValue struct {
	K string `json:"k"`
	V any    `json:"v,omitempty"`
	T string `json:"t,omitempty"` // scalar: dynamic kind
}

type PathResult struct {
	Status      string // ok, pruned, violation, inconclusive, unsupported
	Reason      string
	NewPrefixes [][]int32
	Cand        *Candidate
	Covers      map[string]bool
	Decisions   []int32
	Steps       int
	Forks       int
	Asserts     int // assertion obligations reached
	Discharged  int // proved unsat (or concretely true)
	Unknowns    int
	Sample      []NDValue // a concrete instance of this path (from the last sat model), may be nil
	ObsPred     map[string]string
	Foreign     map[string]int
	UnderApprox bool
	Stores      []string
}

// Machine is one worker: interpreter state for the path being executed.
type Machine struct {
	prog    *ssa.Program
	shared  *Shared
	cfg     Config
	st      *sym.Store
	solver  *sym.Solver
	globals map[*ssa.Global]*value

	OrderMode bool
	blocks    map[*ssa.BasicBlock]struct{} // coverage, merged into Shared when the worker ends
	finfo     map[*ssa.Function]*funcInfo

	prefix      []int32
	decisions   []int32
	pending     [][]int32
	pc          []*sym.Term
	steps       int
	frames      int
	allocs      int
	nd          []ndRec
	ndCount     int
	covers      map[string]bool
	observes    []obsRec
	asserts     int
	discharge   int
	unknowns    int
	forks       int
	foreign     map[string]int
	under       bool
	env         []value // os.Environ stub ("K=V" strings, values possibly symbolic)
	cand        *Candidate
	decided     map[int]bool
	evalMemo    map[int]sym.Val
	walk        int
	bufs        map[*value]*[]*sym.Term
	orderBudget int
	orderLight  bool
	allocElems  int
	goroutines  int
	onceDone    map[*value]bool
	orderGlobal int
	cyclicSeen  bool
	doms        map[string]*dom
	tsMemo      map[int]sym.Val
	entangled   map[string]bool
	walked      map[int]bool
	pcSent      int
	solverOpen  bool
	vfs         *vfs
	harness     string
	initDone    bool
	exitCode    *int
	exitOK      bool
	lastModel   sym.Model
	strTokens   []string
	fnStack     []*ssa.Function
	stores      []string // stores to package-level variables after init
}

var defaultTokens = []string{"s0", "s1", "s2", "s3"}

func NewMachine(sh *Shared, cfg Config, solver *sym.Solver) *Machine {
	return &Machine{prog: sh.Prog, shared: sh, cfg: cfg, solver: solver, OrderMode: cfg.OrderMode,
		blocks: map[*ssa.BasicBlock]struct{}{}, finfo: map[*ssa.Function]*funcInfo{}}
}

func (m *Machine) resetPath(prefix []int32) {
	m.st = sym.NewStore()
	m.globals = map[*ssa.Global]*value{}
	m.prefix = prefix
	m.OrderMode = m.cfg.OrderMode
	m.orderLight = false
	m.allocElems = 0
	m.onceDone = nil
	m.orderGlobal = 0
	m.orderBudget = m.cfg.OrderBudget
	m.decisions = m.decisions[:0]
	m.pending = nil
	m.pc = nil
	m.steps, m.frames, m.allocs = 0, 0, 0
	m.nd = nil
	m.ndCount = 0
	m.covers = map[string]bool{}
	m.observes = nil
	m.asserts, m.discharge, m.unknowns, m.forks = 0, 0, 0, 0
	m.foreign = map[string]int{}
	m.under = false
	m.env = nil
	m.vfs = nil
	m.exitCode = nil
	m.exitOK = false
	m.lastModel = nil
	m.strTokens = defaultTokens
	m.fnStack = m.fnStack[:0]
	m.stores = nil
	m.initDone = false
	m.decided = map[int]bool{}
	m.evalMemo = map[int]sym.Val{}
	m.walk = 0
	m.bufs = nil
	m.doms = map[string]*dom{}
	m.tsMemo = map[int]sym.Val{}
	m.entangled = map[string]bool{}
	m.walked = map[int]bool{}
	m.pcSent = 0
	m.solverOpen = false
}

// ---- path condition and forking ----

func (m *Machine) assumeTerm(t *sym.Term) {
	if t.IsTrue() {
		return
	}
	m.pc = append(m.pc, t)
	if m.lastModel != nil && sym.Eval(t, m.lastModel, m.evalMemo).U != 1 {
		m.lastModel = nil
	}
	if v := m.unaryVar(t); v != nil {
		d := m.domOf(v)
		ts := m.truthSet(t, v)
		for i := range d {
			d[i] &= ts[i]
		}
	} else {
		m.entangle(t)
	}
}

// assumeWithDom adds a unary conjunct whose truth set (within the current
// domain of v) is already known to be d.
func (m *Machine) assumeWithDom(t *sym.Term, v *sym.Term, d *dom) {
	m.pc = append(m.pc, t)
	if m.lastModel != nil && sym.Eval(t, m.lastModel, m.evalMemo).U != 1 {
		m.lastModel = nil
	}
	cur, ok := m.doms[v.Name]
	if !ok {
		c := *d
		m.doms[v.Name] = &c
		return
	}
	for i := range cur {
		cur[i] &= d[i]
	}
}

// ---- small-domain tracking ----
//
// For variables of at most 8 bits (string bytes, scalar kinds, token indices,
// bools) the set of values allowed by the unary conjuncts of the path
// condition is kept as a bitset. As long as such a variable occurs in no
// path-condition conjunct together with another variable, feasibility of a
// unary condition on it is decided on the bitset, exactly, without a solver
// query. (The conjuncts are still handed to the solver, for the queries that
// do relate several variables.)

type dom [4]uint64

func (d *dom) empty() bool { return d[0]|d[1]|d[2]|d[3] == 0 }

func smallSort(so sym.Sort) bool {
	return so.K == sym.KBool || (so.K == sym.KBV && so.W <= 8)
}

func (m *Machine) domOf(v *sym.Term) *dom {
	if d, ok := m.doms[v.Name]; ok {
		return d
	}
	d := &dom{}
	n := 2
	if v.Sort.K == sym.KBV {
		n = 1 << v.Sort.W
	}
	for x := 0; x < n; x++ {
		d[x>>6] |= 1 << (uint(x) & 63)
	}
	m.doms[v.Name] = d
	return d
}

// unaryVar: the single small-sorted, non-entangled variable of t, or nil.
func (m *Machine) unaryVar(t *sym.Term) *sym.Term {
	vs, ok := m.st.FreeVars(t, 1)
	if !ok || len(vs) != 1 || !smallSort(vs[0].Sort) || m.entangled[vs[0].Name] {
		return nil
	}
	return vs[0]
}

// truthSet evaluates the unary condition t for every value of v that is still
// in the domain d.
func (m *Machine) truthSet(t *sym.Term, v *sym.Term) *dom {
	cur := m.domOf(v)
	d := &dom{}
	model := sym.Model{}
	for w := 0; w < 4; w++ {
		bitsw := cur[w]
		for bitsw != 0 {
			b := bits.TrailingZeros64(bitsw)
			bitsw &^= 1 << uint(b)
			x := w<<6 | b
			model[v.Name] = sym.Val{U: uint64(x)}
			clear(m.tsMemo)
			if sym.Eval(t, model, m.tsMemo).U == 1 {
				d[w] |= 1 << uint(b)
			}
		}
	}
	return d
}

func (m *Machine) entangle(t *sym.Term) {
	if t.Op == sym.OConst || m.walked[t.ID] {
		return
	}
	m.walked[t.ID] = true
	if t.Op == sym.OVar {
		if smallSort(t.Sort) {
			m.entangled[t.Name] = true
		}
		return
	}
	for _, a := range t.Args {
		m.entangle(a)
	}
}

// check flushes pending path-condition conjuncts to the solver and decides
// PC ∧ extra.
func (m *Machine) check(extra ...*sym.Term) sym.Result {
	if !m.solverOpen {
		m.solver.BeginPath()
		m.solverOpen = true
	}
	for ; m.pcSent < len(m.pc); m.pcSent++ {
		m.solver.Assert(m.pc[m.pcSent])
	}
	return m.solver.Check(extra...)
}

func (m *Machine) record(d int32) {
	m.decisions = append(m.decisions, d)
}

// decide resolves a symbolic branch condition: both polarities are checked
// for feasibility under the path condition; the infeasible ones are pruned,
// and if both are feasible the path forks (the other side is queued as a
// decision prefix and re-executed later).
func (m *Machine) decide(c *sym.Term) bool {
	if c.IsConst() {
		return c.IsTrue()
	}
	// a condition already settled on this path (terms are hash-consed, so
	// the reference model and the real code ask about the same Term)
	if v, ok := m.decided[c.ID]; ok {
		return v
	}
	res := m.decide1(c)
	m.decided[c.ID] = res
	if c.Op == sym.ONot {
		m.decided[c.Args[0].ID] = !res
	} else {
		m.decided[m.st.Not(c).ID] = !res
	}
	return res
}

func (m *Machine) decide1(c *sym.Term) bool {
	idx := len(m.decisions)
	if idx < len(m.prefix) {
		d := m.prefix[idx]
		m.record(d)
		forced := d&forcedFlag != 0
		v := d&^forcedFlag == 1
		if !forced {
			if v {
				m.assumeTerm(c)
			} else {
				m.assumeTerm(m.st.Not(c))
			}
		}
		return v
	}
	nc := m.st.Not(c)
	if v := m.unaryVar(c); v != nil {
		d := m.domOf(v)
		ts := m.truthSet(c, v)
		var T, F dom
		for i := range d {
			T[i] = d[i] & ts[i]
			F[i] = d[i] &^ ts[i]
		}
		switch {
		case T.empty():
			m.record(0 | forcedFlag)
			return false
		case F.empty():
			m.record(1 | forcedFlag)
			return true
		}
		m.forks++
		alt := append(append([]int32(nil), m.decisions...), 0)
		m.pending = append(m.pending, alt)
		m.record(1)
		m.assumeTerm(c)
		return true
	}
	// A cached model of the path condition tells which side is certainly
	// feasible; only the other side needs a query.
	known := -1
	if m.lastModel != nil {
		if sym.Eval(c, m.lastModel, m.evalMemo).U == 1 {
			known = 1
		} else {
			known = 0
		}
	}
	var r1, r2 sym.Result
	if known == 1 {
		r1 = sym.Sat
	} else {
		r1 = m.check(c)
		if r1 == sym.Sat {
			// the path continues on side c whenever c is feasible: keep a
			// model of PC ∧ c
			m.fetchModel()
		}
	}
	if r1 == sym.Unsat {
		m.record(0 | forcedFlag)
		return false
	}
	if r1 == sym.Unknown {
		m.unknowns++
		m.lastModel = nil
	}
	if known == 0 {
		r2 = sym.Sat
	} else {
		r2 = m.check(nc)
	}
	if r2 == sym.Unsat {
		m.record(1 | forcedFlag)
		return true
	}
	if r2 == sym.Unknown {
		m.unknowns++
	}
	// both feasible (or unknown: explored conservatively, flagged)
	m.forks++
	alt := append(append([]int32(nil), m.decisions...), 0)
	m.pending = append(m.pending, alt)
	m.record(1)
	m.assumeTerm(c)
	return true
}

// fetchModel caches a model of the formula of the last Sat check.
func (m *Machine) fetchModel() {
	model, err := m.solver.GetModel(m.ndVars())
	if err != nil {
		m.lastModel = nil
		return
	}
	m.lastModel = model
	m.evalMemo = map[int]sym.Val{}
}

// choose is an n-way structural fork that needs no solver.
func (m *Machine) choose(n int, tag string) int {
	if n <= 1 {
		return 0
	}
	idx := len(m.decisions)
	if idx < len(m.prefix) {
		d := m.prefix[idx]
		m.record(d)
		return int(d &^ forcedFlag)
	}
	m.forks++
	for alt := n - 1; alt >= 1; alt-- {
		p := append(append([]int32(nil), m.decisions...), int32(alt))
		m.pending = append(m.pending, p)
	}
	m.record(0)
	return 0
}

// truth turns a bool-kinded value into a Go bool, forking if symbolic.
func (m *Machine) truth(v value) bool {
	switch v := v.(type) {
	case bool:
		return v
	case symv:
		return m.decide(v.T)
	}
	panic(fmt.Sprintf("truth: %T", v))
}

// concretizeInt forces a symbolic integer to a concrete value by forking over
// the values in [lo, hi]; values outside end the path as under-approximated.
func (m *Machine) concretizeInt(v value, lo, hi int64) int64 {
	sv, ok := v.(symv)
	if !ok {
		u, _ := intBits(v)
		return int64(u)
	}
	w := int(sv.T.Sort.W)
	for x := lo; x <= hi; x++ {
		if m.decide(m.st.Eq(sv.T, m.st.BVC(w, uint64(x)))) {
			return x
		}
	}
	m.under = true
	panic(pathEnd{kind: "unsupported", msg: fmt.Sprintf("symbolic integer outside [%d,%d] needs concretisation", lo, hi)})
}

// ---- nondeterministic inputs ----

func (m *Machine) freshName(kind string) string {
	m.ndCount++
	return fmt.Sprintf("nd%d_%s", m.ndCount, kind)
}

func (m *Machine) ndInt(k types.BasicKind) value {
	t := m.st.Var(m.freshName("i"), sym.BV64)
	kind := "int"
	if k == types.Int64 {
		kind = "int64"
	}
	m.nd = append(m.nd, ndRec{Kind: kind, Terms: []*sym.Term{t}})
	return symv{T: t, K: k}
}

func (m *Machine) ndBool() value {
	t := m.st.Var(m.freshName("b"), sym.Bool)
	m.nd = append(m.nd, ndRec{Kind: "bool", Terms: []*sym.Term{t}})
	return symv{T: t, K: types.Bool}
}

func (m *Machine) ndFloat() value {
	t := m.st.Var(m.freshName("f"), sym.FP64)
	m.nd = append(m.nd, ndRec{Kind: "float", Terms: []*sym.Term{t}})
	return symv{T: t, K: types.Float64}
}

func (m *Machine) ndChoice(n int) value {
	c := m.choose(n, "choice")
	m.nd = append(m.nd, ndRec{Kind: "choice", N: n, Val: c})
	return c
}

// classConstraint returns the term constraining byte b to the byte class.
func (m *Machine) classConstraint(b *sym.Term, class string) *sym.Term {
	st := m.st
	rng := func(lo, hi byte) *sym.Term {
		return st.And(st.ULe(st.BVC(8, uint64(lo)), b), st.ULe(b, st.BVC(8, uint64(hi))))
	}
	switch {
	case class == "any":
		return st.True()
	case class == "print":
		return rng(0x20, 0x7e)
	case class == "ascii":
		return rng(0x00, 0x7f)
	case class == "lower":
		return rng('a', 'z')
	case class == "alnum":
		return st.Or(rng('a', 'z'), rng('A', 'Z'), rng('0', '9'))
	case class == "print+latin1":
		// printable ASCII plus the bytes of 2-byte UTF-8 sequences C2/C3 xx
		return st.Or(rng(0x20, 0x7e), rng(0xc2, 0xc3), rng(0x80, 0xbf))
	case strings.HasPrefix(class, "set:"):
		var alts []*sym.Term
		for i := 4; i < len(class); i++ {
			alts = append(alts, st.Eq(b, st.BVC(8, uint64(class[i]))))
		}
		return st.Or(alts...)
	case strings.HasPrefix(class, "print-"):
		// printable ASCII minus the listed bytes
		cs := []*sym.Term{rng(0x20, 0x7e)}
		for i := 6; i < len(class); i++ {
			cs = append(cs, st.Not(st.Eq(b, st.BVC(8, uint64(class[i])))))
		}
		return st.And(cs...)
	}
	panic(pathEnd{kind: "unsupported", msg: "unknown byte class " + class})
}

// ndStr: string of length chosen in [0,maxLen] (a structural fork) with
// symbolic bytes drawn from class.
func (m *Machine) ndStr(maxLen int, class string, exact bool) value {
	n := maxLen
	if !exact {
		n = m.choose(maxLen+1, "strlen")
	}
	name := m.freshName("s")
	bs := make([]*sym.Term, n)
	for i := 0; i < n; i++ {
		bs[i] = m.st.Var(fmt.Sprintf("%s_%d", name, i), sym.BV8)
		m.assumeTerm(m.classConstraint(bs[i], class))
	}
	m.nd = append(m.nd, ndRec{Kind: "str", Terms: bs, N: n, Class: class})
	if n == 0 {
		return ""
	}
	return symStr{B: bs}
}

// ndScalar: an `any` holding nil, a bool, an int, a float64 or a plain string
// token; withInt64 adds the int64 kind (C04).
func (m *Machine) ndScalar(withInt64, withNil bool) value {
	name := m.freshName("sc")
	st := m.st
	sc := &symScalar{
		Kind: st.Var(name+"_k", sym.BV8),
		B:    st.Var(name+"_b", sym.Bool),
		I:    st.Var(name+"_i", sym.BV64),
		F:    st.Var(name+"_f", sym.FP64),
		S:    st.Var(name+"_s", sym.BV8),
		Name: name,
	}
	maxK := skStr
	if withInt64 {
		maxK = skInt64
	}
	kd := &dom{}
	for k := 0; k <= maxK; k++ {
		if k == skNil && !withNil {
			continue
		}
		kd[0] |= 1 << uint(k)
	}
	m.assumeWithDom(st.ULe(sc.Kind, st.BVC(8, uint64(maxK))), sc.Kind, kd)
	if !withNil {
		m.assumeWithDom(st.Not(st.Eq(sc.Kind, st.BVC(8, skNil))), sc.Kind, kd)
	}
	sd := &dom{}
	for i := range m.strTokens {
		sd[0] |= 1 << uint(i)
	}
	m.assumeWithDom(st.ULt(sc.S, st.BVC(8, uint64(len(m.strTokens)))), sc.S, sd)
	// NaN is excluded from scalar leaves (documentation-silent: NaN != NaN).
	m.assumeTerm(st.Not(st.FIsNaN(sc.F)))
	m.nd = append(m.nd, ndRec{Kind: "scalar", Sc: sc})
	return symIface{sc}
}

// ---- model extraction ----

func (m *Machine) ndVars() []*sym.Term {
	var vs []*sym.Term
	for _, r := range m.nd {
		vs = append(vs, r.Terms...)
		if r.Sc != nil {
			vs = append(vs, r.Sc.Kind, r.Sc.B, r.Sc.I, r.Sc.F, r.Sc.S)
		}
	}
	return vs
}

func fmtFloat(f float64) string {
	switch {
	case math.IsNaN(f):
		return "NaN"
	case math.IsInf(f, 1):
		return "+Inf"
	case math.IsInf(f, -1):
		return "-Inf"
	}
	return fmt.Sprintf("%x", f)
}

// concreteND evaluates the nd log under a model into a replay vector.
func (m *Machine) concreteND(model sym.Model) []NDValue {
	memo := map[int]sym.Val{}
	ev := func(t *sym.Term) sym.Val { return sym.Eval(t, model, memo) }
	var out []NDValue
	for _, r := range m.nd {
		switch r.Kind {
		case "choice":
			out = append(out, NDValue{K: "choice", V: r.Val})
		case "int", "int64":
			out = append(out, NDValue{K: r.Kind, V: fmt.Sprint(int64(ev(r.Terms[0]).U))})
		case "bool":
			out = append(out, NDValue{K: "bool", V: ev(r.Terms[0]).U == 1})
		case "float":
			out = append(out, NDValue{K: "float", V: fmtFloat(ev(r.Terms[0]).F)})
		case "str":
			bs := make([]byte, len(r.Terms))
			for i, t := range r.Terms {
				bs[i] = byte(ev(t).U)
			}
			out = append(out, NDValue{K: "str", V: fmt.Sprintf("%x", bs), T: fmt.Sprint(r.N)})
		case "scalar":
			k := ev(r.Sc.Kind).U
			switch k {
			case skNil:
				out = append(out, NDValue{K: "scalar", T: "nil"})
			case skBool:
				out = append(out, NDValue{K: "scalar", T: "bool", V: ev(r.Sc.B).U == 1})
			case skInt:
				out = append(out, NDValue{K: "scalar", T: "int", V: fmt.Sprint(int64(ev(r.Sc.I).U))})
			case skInt64:
				out = append(out, NDValue{K: "scalar", T: "int64", V: fmt.Sprint(int64(ev(r.Sc.I).U))})
			case skFloat:
				out = append(out, NDValue{K: "scalar", T: "float64", V: fmtFloat(ev(r.Sc.F).F)})
			case skStr:
				idx := int(ev(r.Sc.S).U)
				if idx >= len(m.strTokens) {
					idx = 0
				}
				out = append(out, NDValue{K: "scalar", T: "string", V: m.strTokens[idx]})
			default:
				out = append(out, NDValue{K: "scalar", T: "nil"})
			}
		}
	}
	return out
}

// modelNow asks the solver for a model of the current path condition plus
// the extra literals. ok=false if not sat.
func (m *Machine) modelNow(extra ...*sym.Term) (sym.Model, sym.Result) {
	r := m.check(extra...)
	if r != sym.Sat {
		return nil, r
	}
	model, err := m.solver.GetModel(m.ndVars())
	if err != nil {
		m.unknowns++
		return nil, sym.Unknown
	}
	// cross-check: the model must satisfy the path condition in our own evaluator
	memo := map[int]sym.Val{}
	for _, c := range append(append([]*sym.Term(nil), m.pc...), extra...) {
		if sym.Eval(c, model, memo).U != 1 {
			m.unknowns++
			return model, sym.Unknown
		}
	}
	return model, sym.Sat
}
