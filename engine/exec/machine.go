package exec

import (
	"fmt"
	"go/types"
	"math"
	"strings"

	"bklsym/sym"

	"golang.org/x/tools/go/ssa"
)

const forcedFlag = int32(1) << 30

type Config struct {
	MaxSteps  int // instruction budget per path
	MaxFrames int // call-depth budget per path
	OrderMode bool
	Trace     bool
}

type ndRec struct {
	Kind  string // choice,int,int64,bool,float,str,scalar
	Terms []*sym.Term
	N     int    // choice: arity; str: length
	Val   int    // choice: value taken
	Class string // str
	Sc    *symScalar
}

type obsRec struct {
	Tag string
	Val value
}

// Candidate is a potential violation found on a path; it is only reported
// after native replay confirms it.
type Candidate struct {
	Harness   string
	Kind      string // assert, panic, fuel, frames
	AssertID  string
	Msg       string
	Pos       string
	Decisions []int32
	ND        []NDValue
	Observes  map[string]string
	ModelOK   bool
}

// NDValue is one concrete nondeterministic input of a replay vector.
type NDValue struct {
	K string `json:"k"`
	V any    `json:"v,omitempty"`
	T string `json:"t,omitempty"` // scalar: dynamic kind
}

type PathResult struct {
	Status      string // ok, pruned, violation, inconclusive, unsupported
	Reason      string
	NewPrefixes [][]int32
	Cand        *Candidate
	Covers      map[string]bool
	Decisions   []int32
	Steps       int
	Forks       int
	Asserts     int // assertion obligations reached
	Discharged  int // proved unsat (or concretely true)
	Unknowns    int
	Sample      []NDValue // a concrete instance of this path (from the last sat model), may be nil
	ObsPred     map[string]string
	Foreign     map[string]int
	UnderApprox bool
	Stores      []string
}

// Machine is one worker: interpreter state for the path being executed.
type Machine struct {
	prog    *ssa.Program
	shared  *Shared
	cfg     Config
	st      *sym.Store
	solver  *sym.Solver
	globals map[*ssa.Global]*value

	OrderMode bool

	prefix    []int32
	decisions []int32
	pending   [][]int32
	pc        []*sym.Term
	steps     int
	frames    int
	allocs    int
	nd        []ndRec
	ndCount   int
	covers    map[string]bool
	observes  []obsRec
	asserts   int
	discharge int
	unknowns  int
	forks     int
	foreign   map[string]int
	under     bool
	env       []value // os.Environ stub ("K=V" strings, values possibly symbolic)
	cand      *Candidate
	vfs       *vfs
	harness   string
	initDone  bool
	exitCode  *int
	lastModel sym.Model
	strTokens []string
	fnStack   []*ssa.Function
	stores    []string // stores to package-level variables after init
}

var defaultTokens = []string{"s0", "s1", "s2", "s3"}

func NewMachine(sh *Shared, cfg Config, solver *sym.Solver) *Machine {
	return &Machine{prog: sh.Prog, shared: sh, cfg: cfg, solver: solver, OrderMode: cfg.OrderMode}
}

func (m *Machine) resetPath(prefix []int32) {
	m.st = sym.NewStore()
	m.globals = map[*ssa.Global]*value{}
	m.prefix = prefix
	m.decisions = m.decisions[:0]
	m.pending = nil
	m.pc = nil
	m.steps, m.frames, m.allocs = 0, 0, 0
	m.nd = nil
	m.ndCount = 0
	m.covers = map[string]bool{}
	m.observes = nil
	m.asserts, m.discharge, m.unknowns, m.forks = 0, 0, 0, 0
	m.foreign = map[string]int{}
	m.under = false
	m.env = nil
	m.vfs = nil
	m.exitCode = nil
	m.lastModel = nil
	m.strTokens = defaultTokens
	m.fnStack = m.fnStack[:0]
	m.stores = nil
	m.initDone = false
}

// ---- path condition and forking ----

func (m *Machine) assumeTerm(t *sym.Term) {
	if t.IsTrue() {
		return
	}
	m.pc = append(m.pc, t)
	m.solver.Assert(t)
}

func (m *Machine) record(d int32) {
	m.decisions = append(m.decisions, d)
}

// decide resolves a symbolic branch condition: both polarities are checked
// for feasibility under the path condition; the infeasible ones are pruned,
// and if both are feasible the path forks (the other side is queued as a
// decision prefix and re-executed later).
func (m *Machine) decide(c *sym.Term) bool {
	if c.IsConst() {
		return c.IsTrue()
	}
	idx := len(m.decisions)
	if idx < len(m.prefix) {
		d := m.prefix[idx]
		m.record(d)
		forced := d&forcedFlag != 0
		v := d&^forcedFlag == 1
		if !forced {
			if v {
				m.assumeTerm(c)
			} else {
				m.assumeTerm(m.st.Not(c))
			}
		}
		return v
	}
	nc := m.st.Not(c)
	r1 := m.solver.Check(c)
	if r1 == sym.Unsat {
		m.record(0 | forcedFlag)
		return false
	}
	if r1 == sym.Unknown {
		m.unknowns++
	}
	r2 := m.solver.Check(nc)
	if r2 == sym.Unsat {
		m.record(1 | forcedFlag)
		return true
	}
	if r2 == sym.Unknown {
		m.unknowns++
	}
	// both feasible (or unknown: explored conservatively, flagged)
	m.forks++
	alt := append(append([]int32(nil), m.decisions...), 0)
	m.pending = append(m.pending, alt)
	m.record(1)
	m.assumeTerm(c)
	return true
}

// choose is an n-way structural fork that needs no solver.
func (m *Machine) choose(n int, tag string) int {
	if n <= 1 {
		return 0
	}
	idx := len(m.decisions)
	if idx < len(m.prefix) {
		d := m.prefix[idx]
		m.record(d)
		return int(d &^ forcedFlag)
	}
	m.forks++
	for alt := n - 1; alt >= 1; alt-- {
		p := append(append([]int32(nil), m.decisions...), int32(alt))
		m.pending = append(m.pending, p)
	}
	m.record(0)
	return 0
}

// truth turns a bool-kinded value into a Go bool, forking if symbolic.
func (m *Machine) truth(v value) bool {
	switch v := v.(type) {
	case bool:
		return v
	case symv:
		return m.decide(v.T)
	}
	panic(fmt.Sprintf("truth: %T", v))
}

// concretizeInt forces a symbolic integer to a concrete value by forking over
// the values in [lo, hi]; values outside end the path as under-approximated.
func (m *Machine) concretizeInt(v value, lo, hi int64) int64 {
	sv, ok := v.(symv)
	if !ok {
		u, _ := intBits(v)
		return int64(u)
	}
	w := int(sv.T.Sort.W)
	for x := lo; x <= hi; x++ {
		if m.decide(m.st.Eq(sv.T, m.st.BVC(w, uint64(x)))) {
			return x
		}
	}
	m.under = true
	panic(pathEnd{kind: "unsupported", msg: fmt.Sprintf("symbolic integer outside [%d,%d] needs concretisation", lo, hi)})
}

// ---- nondeterministic inputs ----

func (m *Machine) freshName(kind string) string {
	m.ndCount++
	return fmt.Sprintf("nd%d_%s", m.ndCount, kind)
}

func (m *Machine) ndInt(k types.BasicKind) value {
	t := m.st.Var(m.freshName("i"), sym.BV64)
	kind := "int"
	if k == types.Int64 {
		kind = "int64"
	}
	m.nd = append(m.nd, ndRec{Kind: kind, Terms: []*sym.Term{t}})
	return symv{T: t, K: k}
}

func (m *Machine) ndBool() value {
	t := m.st.Var(m.freshName("b"), sym.Bool)
	m.nd = append(m.nd, ndRec{Kind: "bool", Terms: []*sym.Term{t}})
	return symv{T: t, K: types.Bool}
}

func (m *Machine) ndFloat() value {
	t := m.st.Var(m.freshName("f"), sym.FP64)
	m.nd = append(m.nd, ndRec{Kind: "float", Terms: []*sym.Term{t}})
	return symv{T: t, K: types.Float64}
}

func (m *Machine) ndChoice(n int) value {
	c := m.choose(n, "choice")
	m.nd = append(m.nd, ndRec{Kind: "choice", N: n, Val: c})
	return c
}

// classConstraint returns the term constraining byte b to the byte class.
func (m *Machine) classConstraint(b *sym.Term, class string) *sym.Term {
	st := m.st
	rng := func(lo, hi byte) *sym.Term {
		return st.And(st.ULe(st.BVC(8, uint64(lo)), b), st.ULe(b, st.BVC(8, uint64(hi))))
	}
	switch {
	case class == "any":
		return st.True()
	case class == "print":
		return rng(0x20, 0x7e)
	case class == "ascii":
		return rng(0x00, 0x7f)
	case class == "lower":
		return rng('a', 'z')
	case class == "alnum":
		return st.Or(rng('a', 'z'), rng('A', 'Z'), rng('0', '9'))
	case class == "print+latin1":
		// printable ASCII plus the bytes of 2-byte UTF-8 sequences C2/C3 xx
		return st.Or(rng(0x20, 0x7e), rng(0xc2, 0xc3), rng(0x80, 0xbf))
	case strings.HasPrefix(class, "set:"):
		var alts []*sym.Term
		for i := 4; i < len(class); i++ {
			alts = append(alts, st.Eq(b, st.BVC(8, uint64(class[i]))))
		}
		return st.Or(alts...)
	case strings.HasPrefix(class, "print-"):
		// printable ASCII minus the listed bytes
		cs := []*sym.Term{rng(0x20, 0x7e)}
		for i := 6; i < len(class); i++ {
			cs = append(cs, st.Not(st.Eq(b, st.BVC(8, uint64(class[i])))))
		}
		return st.And(cs...)
	}
	panic(pathEnd{kind: "unsupported", msg: "unknown byte class " + class})
}

// ndStr: string of length chosen in [0,maxLen] (a structural fork) with
// symbolic bytes drawn from class.
func (m *Machine) ndStr(maxLen int, class string, exact bool) value {
	n := maxLen
	if !exact {
		n = m.choose(maxLen+1, "strlen")
	}
	name := m.freshName("s")
	bs := make([]*sym.Term, n)
	for i := 0; i < n; i++ {
		bs[i] = m.st.Var(fmt.Sprintf("%s_%d", name, i), sym.BV8)
		m.assumeTerm(m.classConstraint(bs[i], class))
	}
	m.nd = append(m.nd, ndRec{Kind: "str", Terms: bs, N: n, Class: class})
	if n == 0 {
		return ""
	}
	return symStr{B: bs}
}

// ndScalar: an `any` holding nil, a bool, an int, a float64 or a plain string
// token; withInt64 adds the int64 kind (C04).
func (m *Machine) ndScalar(withInt64, withNil bool) value {
	name := m.freshName("sc")
	st := m.st
	sc := &symScalar{
		Kind: st.Var(name+"_k", sym.BV8),
		B:    st.Var(name+"_b", sym.Bool),
		I:    st.Var(name+"_i", sym.BV64),
		F:    st.Var(name+"_f", sym.FP64),
		S:    st.Var(name+"_s", sym.BV8),
		Name: name,
	}
	maxK := skStr
	if withInt64 {
		maxK = skInt64
	}
	m.assumeTerm(st.ULe(sc.Kind, st.BVC(8, uint64(maxK))))
	if !withNil {
		m.assumeTerm(st.Not(st.Eq(sc.Kind, st.BVC(8, skNil))))
	}
	m.assumeTerm(st.ULt(sc.S, st.BVC(8, uint64(len(m.strTokens)))))
	// NaN is excluded from scalar leaves (documentation-silent: NaN != NaN).
	m.assumeTerm(st.Not(st.FIsNaN(sc.F)))
	m.nd = append(m.nd, ndRec{Kind: "scalar", Sc: sc})
	return symIface{sc}
}

// ---- model extraction ----

func (m *Machine) ndVars() []*sym.Term {
	var vs []*sym.Term
	for _, r := range m.nd {
		vs = append(vs, r.Terms...)
		if r.Sc != nil {
			vs = append(vs, r.Sc.Kind, r.Sc.B, r.Sc.I, r.Sc.F, r.Sc.S)
		}
	}
	return vs
}

func fmtFloat(f float64) string {
	switch {
	case math.IsNaN(f):
		return "NaN"
	case math.IsInf(f, 1):
		return "+Inf"
	case math.IsInf(f, -1):
		return "-Inf"
	}
	return fmt.Sprintf("%x", f)
}

// concreteND evaluates the nd log under a model into a replay vector.
func (m *Machine) concreteND(model sym.Model) []NDValue {
	memo := map[int]sym.Val{}
	ev := func(t *sym.Term) sym.Val { return sym.Eval(t, model, memo) }
	var out []NDValue
	for _, r := range m.nd {
		switch r.Kind {
		case "choice":
			out = append(out, NDValue{K: "choice", V: r.Val})
		case "int", "int64":
			out = append(out, NDValue{K: r.Kind, V: fmt.Sprint(int64(ev(r.Terms[0]).U))})
		case "bool":
			out = append(out, NDValue{K: "bool", V: ev(r.Terms[0]).U == 1})
		case "float":
			out = append(out, NDValue{K: "float", V: fmtFloat(ev(r.Terms[0]).F)})
		case "str":
			bs := make([]byte, len(r.Terms))
			for i, t := range r.Terms {
				bs[i] = byte(ev(t).U)
			}
			out = append(out, NDValue{K: "str", V: fmt.Sprintf("%x", bs), T: fmt.Sprint(r.N)})
		case "scalar":
			k := ev(r.Sc.Kind).U
			switch k {
			case skNil:
				out = append(out, NDValue{K: "scalar", T: "nil"})
			case skBool:
				out = append(out, NDValue{K: "scalar", T: "bool", V: ev(r.Sc.B).U == 1})
			case skInt:
				out = append(out, NDValue{K: "scalar", T: "int", V: fmt.Sprint(int64(ev(r.Sc.I).U))})
			case skInt64:
				out = append(out, NDValue{K: "scalar", T: "int64", V: fmt.Sprint(int64(ev(r.Sc.I).U))})
			case skFloat:
				out = append(out, NDValue{K: "scalar", T: "float64", V: fmtFloat(ev(r.Sc.F).F)})
			case skStr:
				idx := int(ev(r.Sc.S).U)
				if idx >= len(m.strTokens) {
					idx = 0
				}
				out = append(out, NDValue{K: "scalar", T: "string", V: m.strTokens[idx]})
			default:
				out = append(out, NDValue{K: "scalar", T: "nil"})
			}
		}
	}
	return out
}

// modelNow asks the solver for a model of the current path condition plus
// the extra literals. ok=false if not sat.
func (m *Machine) modelNow(extra ...*sym.Term) (sym.Model, sym.Result) {
	r := m.solver.Check(extra...)
	if r != sym.Sat {
		return nil, r
	}
	model, err := m.solver.GetModel(m.ndVars())
	if err != nil {
		m.unknowns++
		return nil, sym.Unknown
	}
	// cross-check: the model must satisfy the path condition in our own evaluator
	memo := map[int]sym.Val{}
	for _, c := range append(append([]*sym.Term(nil), m.pc...), extra...) {
		if sym.Eval(c, model, memo).U != 1 {
			m.unknowns++
			return model, sym.Unknown
		}
	}
	return model, sym.Sat
}
