package exec

import (
	"go/token"
	"regexp"
	"regexp/syntax"
	"strings"
	"unicode"
	"unicode/utf8"

	"bklsym/sym"
)

// Generic symbolic regular-expression matching.
//
// The pattern is always concrete (regexp.MustCompile of a constant); the
// subject is a string of concrete length whose bytes may be symbolic. The
// compiled program of the real regexp/syntax package is run by a backtracking
// matcher with Go's leftmost-first priorities; every test of a symbolic byte
// is a solver-decided fork, so on each path the match positions are concrete.
// Since decisions are memoised per path, the (pc, position) visited set of an
// ordinary backtracker remains valid.
//
// Stated limits: a symbolic byte is assumed (by a decided fork) to be ASCII;
// a path on which it is not ends as unsupported (inconclusive). Concrete
// multi-byte sequences are decoded exactly.

type reProg struct {
	prog *syntax.Prog
	re   *regexp.Regexp
}

var reProgs = map[string]*reProg{}

func progOf(re *regexp.Regexp) *reProg {
	if p, ok := reProgs[re.String()]; ok {
		return p
	}
	rx, err := syntax.Parse(re.String(), syntax.Perl)
	if err != nil {
		unsupported("regexp parse: %v", err)
	}
	prog, err := syntax.Compile(rx.Simplify())
	if err != nil {
		unsupported("regexp compile: %v", err)
	}
	p := &reProg{prog: prog, re: re}
	reProgs[re.String()] = p
	return p
}

type reRun struct {
	m       *Machine
	p       *reProg
	bs      []*sym.Term
	visited map[[2]int]bool
}

// runeAt returns the rune at pos: either a concrete rune with its width, or
// (for a symbolic ASCII byte) the byte term with width 1.
func (r *reRun) runeAt(pos int) (rune, *sym.Term, int) {
	b := r.bs[pos]
	if !b.IsConst() {
		st := r.m.st
		if r.m.decide(st.ULt(b, st.BVC(8, 0x80))) {
			return 0, b, 1
		}
	} else if b.U < 0x80 {
		return rune(b.U), nil, 1
	}
	// a multi-byte sequence: every byte of it must be (made) concrete
	var buf []byte
	for i := pos; i < len(r.bs) && i < pos+4 && !utf8.FullRune(buf); i++ {
		buf = append(buf, r.m.pinByte(r.bs[i]))
	}
	ru, w := utf8.DecodeRune(buf)
	return ru, nil, w
}

// pinByte returns the value of a byte term, forking a symbolic one onto the
// value the current model gives it (up to 3 candidates; the remainder of its
// range ends the path as unsupported).
func (m *Machine) pinByte(t *sym.Term) byte {
	if t.IsConst() {
		return byte(t.U)
	}
	for try := 0; try < 3; try++ {
		model := m.lastModel
		if model == nil {
			var res sym.Result
			model, res = m.modelNow()
			if res != sym.Sat {
				break
			}
		}
		v := sym.Eval(t, model, map[int]sym.Val{}).U
		if m.decide(m.st.Eq(t, m.st.BVC(8, v))) {
			return byte(v)
		}
	}
	unsupported("regexp over a symbolic non-ASCII byte")
	return 0
}

// byteClass builds the condition "ASCII byte b is matched by instruction i".
func (r *reRun) byteClass(i *syntax.Inst, b *sym.Term) *sym.Term {
	st := r.m.st
	switch i.Op {
	case syntax.InstRuneAny:
		return st.True()
	case syntax.InstRuneAnyNotNL:
		return st.Not(st.Eq(b, st.BVC(8, '\n')))
	}
	var alts []*sym.Term
	for c := rune(0); c < 0x80; {
		if !i.MatchRune(c) {
			c++
			continue
		}
		lo := c
		for c < 0x80 && i.MatchRune(c) {
			c++
		}
		hi := c - 1
		if lo == hi {
			alts = append(alts, st.Eq(b, st.BVC(8, uint64(lo))))
		} else {
			alts = append(alts, st.And(st.ULe(st.BVC(8, uint64(lo)), b), st.ULe(b, st.BVC(8, uint64(hi)))))
		}
	}
	if len(alts) == 0 {
		return st.False()
	}
	return st.Or(alts...)
}

func isWordRune(c rune) bool {
	return c == '_' || (c >= '0' && c <= '9') || (c >= 'a' && c <= 'z') || (c >= 'A' && c <= 'Z')
}

// ctxTest decides a predicate of the byte at pos (false outside the string).
func (r *reRun) ctxTest(pos int, pred func(rune) bool) bool {
	if pos < 0 || pos >= len(r.bs) {
		return false
	}
	b := r.bs[pos]
	if b.IsConst() {
		return b.U < 0x80 && pred(rune(b.U))
	}
	st := r.m.st
	var alts []*sym.Term
	for c := rune(0); c < 0x80; c++ {
		if pred(c) {
			alts = append(alts, st.Eq(b, st.BVC(8, uint64(c))))
		}
	}
	if len(alts) == 0 {
		return false
	}
	return r.m.decide(st.Or(alts...))
}

func (r *reRun) emptyOK(op syntax.EmptyOp, pos int) bool {
	n := len(r.bs)
	isNL := func(c rune) bool { return c == '\n' }
	if op&syntax.EmptyBeginText != 0 && pos != 0 {
		return false
	}
	if op&syntax.EmptyEndText != 0 && pos != n {
		return false
	}
	if op&syntax.EmptyBeginLine != 0 && pos != 0 && !r.ctxTest(pos-1, isNL) {
		return false
	}
	if op&syntax.EmptyEndLine != 0 && pos != n && !r.ctxTest(pos, isNL) {
		return false
	}
	if op&(syntax.EmptyWordBoundary|syntax.EmptyNoWordBoundary) != 0 {
		boundary := r.ctxTest(pos-1, isWordRune) != r.ctxTest(pos, isWordRune)
		if op&syntax.EmptyWordBoundary != 0 && !boundary {
			return false
		}
		if op&syntax.EmptyNoWordBoundary != 0 && boundary {
			return false
		}
	}
	return true
}

func (r *reRun) run(pc, pos int, cap []int) bool {
	for {
		key := [2]int{pc, pos}
		if r.visited[key] {
			return false
		}
		r.visited[key] = true
		inst := &r.p.prog.Inst[pc]
		switch inst.Op {
		case syntax.InstFail:
			return false
		case syntax.InstMatch:
			cap[1] = pos
			return true
		case syntax.InstNop:
			pc = int(inst.Out)
		case syntax.InstCapture:
			if int(inst.Arg) < len(cap) {
				old := cap[inst.Arg]
				cap[inst.Arg] = pos
				if r.run(int(inst.Out), pos, cap) {
					return true
				}
				cap[inst.Arg] = old
				return false
			}
			pc = int(inst.Out)
		case syntax.InstAlt, syntax.InstAltMatch:
			if r.run(int(inst.Out), pos, cap) {
				return true
			}
			pc = int(inst.Arg)
		case syntax.InstEmptyWidth:
			if !r.emptyOK(syntax.EmptyOp(inst.Arg), pos) {
				return false
			}
			pc = int(inst.Out)
		case syntax.InstRune, syntax.InstRune1, syntax.InstRuneAny, syntax.InstRuneAnyNotNL:
			if pos >= len(r.bs) {
				return false
			}
			ru, bt, w := r.runeAt(pos)
			if bt == nil {
				if !inst.MatchRune(ru) {
					return false
				}
			} else {
				c := r.byteClass(inst, bt)
				if c.IsFalse() || (!c.IsTrue() && !r.m.decide(c)) {
					return false
				}
			}
			pos += w
			pc = int(inst.Out)
		default:
			unsupported("regexp instruction %v", inst.Op)
		}
	}
}

// reFind returns the capture index vector (2*(NumSubexp+1) entries, -1 for
// unset groups) of the leftmost-first match starting at or after from, or nil.
func (m *Machine) reFind(re *regexp.Regexp, bs []*sym.Term, from int) []int {
	p := progOf(re)
	r := &reRun{m: m, p: p, bs: bs, visited: map[[2]int]bool{}}
	ncap := 2 * (re.NumSubexp() + 1)
	for start := from; start <= len(bs); start++ {
		cap := make([]int, ncap)
		for i := range cap {
			cap[i] = -1
		}
		cap[0] = start
		if r.run(p.prog.Start, start, cap) {
			return cap
		}
		if start < len(bs) {
			// step over a whole rune
			_, _, w := r.runeAt(start)
			start += w - 1
		}
	}
	return nil
}

func (m *Machine) runeWidthAt(bs []*sym.Term, pos int) int {
	if pos >= len(bs) {
		return 0
	}
	r := &reRun{m: m, bs: bs}
	_, _, w := r.runeAt(pos)
	return w
}

// reFindAll mirrors regexp.(*Regexp).allMatches.
func (m *Machine) reFindAll(re *regexp.Regexp, bs []*sym.Term, n int) [][]int {
	if n < 0 {
		n = len(bs) + 1
	}
	var out [][]int
	end := len(bs)
	for pos, i, prevMatchEnd := 0, 0, -1; i < n && pos <= end; {
		mt := m.reFind(re, bs, pos)
		if mt == nil {
			break
		}
		accept := true
		if mt[1] == pos {
			if mt[0] == prevMatchEnd {
				accept = false
			}
			if w := m.runeWidthAt(bs, pos); w > 0 {
				pos += w
			} else {
				pos = end + 1
			}
		} else {
			pos = mt[1]
		}
		prevMatchEnd = mt[1]
		if accept {
			out = append(out, mt)
			i++
		}
	}
	return out
}

// reReplaceAll mirrors regexp.(*Regexp).replaceAll.
func (m *Machine) reReplaceAll(re *regexp.Regexp, bs []*sym.Term, repl func(match []int) []*sym.Term) []*sym.Term {
	var buf []*sym.Term
	lastMatchEnd, searchPos := 0, 0
	for searchPos <= len(bs) {
		a := m.reFind(re, bs, searchPos)
		if a == nil {
			break
		}
		buf = append(buf, bs[lastMatchEnd:a[0]]...)
		if a[1] > lastMatchEnd || a[0] == 0 {
			buf = append(buf, repl(a)...)
		}
		lastMatchEnd = a[1]
		width := m.runeWidthAt(bs, searchPos)
		if searchPos+width > a[1] {
			searchPos += width
		} else if searchPos+1 > a[1] {
			searchPos++
		} else {
			searchPos = a[1]
		}
	}
	return append(buf, bs[lastMatchEnd:]...)
}

// reExpand expands a ReplaceAllString template ($1, ${1}, ${name}, $name, $$).
func (m *Machine) reExpand(re *regexp.Regexp, tmpl string, bs []*sym.Term, match []int) []*sym.Term {
	var out []*sym.Term
	lit := func(s string) {
		t, _ := m.strTerms(s)
		out = append(out, t...)
	}
	for len(tmpl) > 0 {
		before, after, ok := strings.Cut(tmpl, "$")
		if !ok {
			break
		}
		lit(before)
		tmpl = after
		if tmpl != "" && tmpl[0] == '$' {
			lit("$")
			tmpl = tmpl[1:]
			continue
		}
		name, num, rest, ok := reExtract(tmpl)
		if !ok {
			lit("$")
			continue
		}
		tmpl = rest
		if num >= 0 {
			if 2*num+1 < len(match) && match[2*num] >= 0 {
				out = append(out, bs[match[2*num]:match[2*num+1]]...)
			}
		} else {
			for i, nm := range re.SubexpNames() {
				if name == nm && 2*i+1 < len(match) && match[2*i] >= 0 {
					out = append(out, bs[match[2*i]:match[2*i+1]]...)
					break
				}
			}
		}
	}
	lit(tmpl)
	return out
}

// reExtract is regexp.extract: the leading "name" or "{name}" of a template.
func reExtract(str string) (name string, num int, rest string, ok bool) {
	if str == "" {
		return
	}
	brace := false
	if str[0] == '{' {
		brace = true
		str = str[1:]
	}
	i := 0
	for i < len(str) {
		r, size := utf8.DecodeRuneInString(str[i:])
		if !unicode.IsLetter(r) && !unicode.IsDigit(r) && r != '_' {
			break
		}
		i += size
	}
	if i == 0 {
		return
	}
	name = str[:i]
	if brace {
		if i >= len(str) || str[i] != '}' {
			return
		}
		i++
	}
	num = 0
	for j := 0; j < len(name); j++ {
		if name[j] < '0' || '9' < name[j] || num >= 1e8 {
			num = -1
			break
		}
		num = num*10 + int(name[j]) - '0'
	}
	if name[0] == '0' && len(name) > 1 {
		num = -1
	}
	rest = str[i:]
	ok = true
	return
}

func intsValue(ix []int) value {
	if ix == nil {
		return []value(nil)
	}
	out := make([]value, len(ix))
	for i, x := range ix {
		out[i] = x
	}
	return out
}

func strsValue(xs []string) value {
	if xs == nil {
		return []value(nil)
	}
	out := make([]value, len(xs))
	for i, x := range xs {
		out[i] = x
	}
	return out
}

func subStrings(bs []*sym.Term, ix []int) value {
	if ix == nil {
		return []value(nil)
	}
	out := make([]value, len(ix)/2)
	for i := range out {
		if ix[2*i] >= 0 {
			out[i] = mkStr(bs[ix[2*i]:ix[2*i+1]])
		} else {
			out[i] = ""
		}
	}
	return out
}

func init() {
	reOf := func(v value) *regexp.Regexp { return opaqueOf(v, "regexp").(*regexp.Regexp) }
	str := func(m *Machine, v value, what string) []*sym.Term {
		bs, ok := m.strTerms(v)
		if !ok {
			unsupported("%s: subject %T", what, v)
		}
		return bs
	}
	reg := func(name string, f foreignFn) { regexTab[name] = f }
	reg("regexp.Compile", func(m *Machine, fr *frame, pos token.Pos, a []value) value {
		re, err := regexp.Compile(concStr(a[0], "regexp.Compile"))
		if err != nil {
			return tuple{(*value)(nil), m.mkErr(err.Error(), false)}
		}
		return tuple{opaquePtr("regexp", re), iface{}}
	})
	reg("regexp.QuoteMeta", func(m *Machine, fr *frame, pos token.Pos, a []value) value {
		return regexp.QuoteMeta(concStr(a[0], "regexp.QuoteMeta"))
	})
	reg("regexp.MatchString", func(m *Machine, fr *frame, pos token.Pos, a []value) value {
		re, err := regexp.Compile(concStr(a[0], "regexp.MatchString"))
		if err != nil {
			return tuple{false, m.mkErr(err.Error(), false)}
		}
		return tuple{m.reFind(re, str(m, a[1], "regexp.MatchString"), 0) != nil, iface{}}
	})
	reg("(*regexp.Regexp).String", func(m *Machine, fr *frame, pos token.Pos, a []value) value {
		return reOf(a[0]).String()
	})
	reg("(*regexp.Regexp).NumSubexp", func(m *Machine, fr *frame, pos token.Pos, a []value) value {
		return reOf(a[0]).NumSubexp()
	})
	reg("(*regexp.Regexp).SubexpIndex", func(m *Machine, fr *frame, pos token.Pos, a []value) value {
		return reOf(a[0]).SubexpIndex(concStr(a[1], "SubexpIndex"))
	})
	reg("(*regexp.Regexp).SubexpNames", func(m *Machine, fr *frame, pos token.Pos, a []value) value {
		var out []value
		for _, n := range reOf(a[0]).SubexpNames() {
			out = append(out, n)
		}
		return out
	})
	reg("(*regexp.Regexp).MatchString", func(m *Machine, fr *frame, pos token.Pos, a []value) value {
		if cs, ok := a[1].(string); ok {
			return reOf(a[0]).MatchString(cs)
		}
		return m.reFind(reOf(a[0]), str(m, a[1], "MatchString"), 0) != nil
	})
	reg("(*regexp.Regexp).FindString", func(m *Machine, fr *frame, pos token.Pos, a []value) value {
		if cs, ok := a[1].(string); ok {
			return reOf(a[0]).FindString(cs)
		}
		bs := str(m, a[1], "FindString")
		ix := m.reFind(reOf(a[0]), bs, 0)
		if ix == nil {
			return ""
		}
		return mkStr(bs[ix[0]:ix[1]])
	})
	reg("(*regexp.Regexp).FindStringIndex", func(m *Machine, fr *frame, pos token.Pos, a []value) value {
		if cs, ok := a[1].(string); ok {
			return intsValue(reOf(a[0]).FindStringIndex(cs))
		}
		ix := m.reFind(reOf(a[0]), str(m, a[1], "FindStringIndex"), 0)
		if ix == nil {
			return []value(nil)
		}
		return intsValue(ix[:2])
	})
	reg("(*regexp.Regexp).FindStringSubmatch", func(m *Machine, fr *frame, pos token.Pos, a []value) value {
		if cs, ok := a[1].(string); ok {
			var out []value
			for _, x := range reOf(a[0]).FindStringSubmatch(cs) {
				out = append(out, x)
			}
			if out == nil {
				return []value(nil)
			}
			return out
		}
		bs := str(m, a[1], "FindStringSubmatch")
		return subStrings(bs, m.reFind(reOf(a[0]), bs, 0))
	})
	reg("(*regexp.Regexp).FindStringSubmatchIndex", func(m *Machine, fr *frame, pos token.Pos, a []value) value {
		if cs, ok := a[1].(string); ok {
			return intsValue(reOf(a[0]).FindStringSubmatchIndex(cs))
		}
		return intsValue(m.reFind(reOf(a[0]), str(m, a[1], "FindStringSubmatchIndex"), 0))
	})
	reg("(*regexp.Regexp).FindAllString", func(m *Machine, fr *frame, pos token.Pos, a []value) value {
		if cs, ok := a[1].(string); ok {
			var out []value
			for _, x := range reOf(a[0]).FindAllString(cs, int(m.concretizeInt(a[2], -1, 8))) {
				out = append(out, x)
			}
			if out == nil {
				return []value(nil)
			}
			return out
		}
		bs := str(m, a[1], "FindAllString")
		all := m.reFindAll(reOf(a[0]), bs, int(m.concretizeInt(a[2], -1, 8)))
		if len(all) == 0 {
			return []value(nil)
		}
		var out []value
		for _, ix := range all {
			out = append(out, mkStr(bs[ix[0]:ix[1]]))
		}
		return out
	})
	reg("(*regexp.Regexp).FindAllStringIndex", func(m *Machine, fr *frame, pos token.Pos, a []value) value {
		if cs, ok := a[1].(string); ok {
			var out []value
			for _, x := range reOf(a[0]).FindAllStringIndex(cs, int(m.concretizeInt(a[2], -1, 8))) {
				out = append(out, intsValue(x))
			}
			if out == nil {
				return []value(nil)
			}
			return out
		}
		all := m.reFindAll(reOf(a[0]), str(m, a[1], "FindAllStringIndex"), int(m.concretizeInt(a[2], -1, 8)))
		if len(all) == 0 {
			return []value(nil)
		}
		var out []value
		for _, ix := range all {
			out = append(out, intsValue(ix[:2]))
		}
		return out
	})
	reg("(*regexp.Regexp).FindAllStringSubmatch", func(m *Machine, fr *frame, pos token.Pos, a []value) value {
		if cs, ok := a[1].(string); ok {
			var out []value
			for _, x := range reOf(a[0]).FindAllStringSubmatch(cs, int(m.concretizeInt(a[2], -1, 8))) {
				out = append(out, strsValue(x))
			}
			if out == nil {
				return []value(nil)
			}
			return out
		}
		bs := str(m, a[1], "FindAllStringSubmatch")
		all := m.reFindAll(reOf(a[0]), bs, int(m.concretizeInt(a[2], -1, 8)))
		if len(all) == 0 {
			return []value(nil)
		}
		var out []value
		for _, ix := range all {
			out = append(out, subStrings(bs, ix))
		}
		return out
	})
	reg("(*regexp.Regexp).FindAllStringSubmatchIndex", func(m *Machine, fr *frame, pos token.Pos, a []value) value {
		if cs, ok := a[1].(string); ok {
			var out []value
			for _, x := range reOf(a[0]).FindAllStringSubmatchIndex(cs, int(m.concretizeInt(a[2], -1, 8))) {
				out = append(out, intsValue(x))
			}
			if out == nil {
				return []value(nil)
			}
			return out
		}
		all := m.reFindAll(reOf(a[0]), str(m, a[1], "FindAllStringSubmatchIndex"), int(m.concretizeInt(a[2], -1, 8)))
		if len(all) == 0 {
			return []value(nil)
		}
		var out []value
		for _, ix := range all {
			out = append(out, intsValue(ix))
		}
		return out
	})
	reg("(*regexp.Regexp).ReplaceAllString", func(m *Machine, fr *frame, pos token.Pos, a []value) value {
		if cs, ok := a[1].(string); ok {
			return reOf(a[0]).ReplaceAllString(cs, concStr(a[2], "ReplaceAllString template"))
		}
		re := reOf(a[0])
		bs := str(m, a[1], "ReplaceAllString")
		tmpl := concStr(a[2], "ReplaceAllString template")
		return mkStr(m.reReplaceAll(re, bs, func(mt []int) []*sym.Term { return m.reExpand(re, tmpl, bs, mt) }))
	})
	reg("(*regexp.Regexp).ReplaceAllLiteralString", func(m *Machine, fr *frame, pos token.Pos, a []value) value {
		if cs, ok := a[1].(string); ok {
			if rs, ok := a[2].(string); ok {
				return reOf(a[0]).ReplaceAllLiteralString(cs, rs)
			}
		}
		bs := str(m, a[1], "ReplaceAllLiteralString")
		rb := str(m, a[2], "ReplaceAllLiteralString")
		return mkStr(m.reReplaceAll(reOf(a[0]), bs, func([]int) []*sym.Term { return rb }))
	})
	reg("(*regexp.Regexp).ReplaceAllStringFunc", func(m *Machine, fr *frame, pos token.Pos, a []value) value {
		bs := str(m, a[1], "ReplaceAllStringFunc")
		callback := a[2]
		return mkStr(m.reReplaceAll(reOf(a[0]), bs, func(mt []int) []*sym.Term {
			r := m.call(fr, pos, callback, []value{mkStr(bs[mt[0]:mt[1]])})
			rb, ok := m.strTerms(r)
			if !ok {
				unsupported("regexp callback returned %T", r)
			}
			return rb
		}))
	})
	reg("(*regexp.Regexp).Split", func(m *Machine, fr *frame, pos token.Pos, a []value) value {
		if cs, ok := a[1].(string); ok {
			var out []value
			for _, x := range reOf(a[0]).Split(cs, int(m.concretizeInt(a[2], -1, 8))) {
				out = append(out, x)
			}
			if out == nil {
				return []value(nil)
			}
			return out
		}
		// mirrors regexp.(*Regexp).Split
		re := reOf(a[0])
		bs := str(m, a[1], "Split")
		n := int(m.concretizeInt(a[2], -1, 8))
		if n == 0 {
			return []value(nil)
		}
		if len(re.String()) > 0 && len(bs) == 0 {
			return []value{""}
		}
		matches := m.reFindAll(re, bs, n)
		out := []value{}
		beg, end := 0, 0
		for _, mt := range matches {
			if n > 0 && len(out) == n-1 {
				break
			}
			end = mt[0]
			if mt[1] != 0 {
				out = append(out, mkStr(bs[beg:end]))
			}
			beg = mt[1]
		}
		if end != len(bs) {
			out = append(out, mkStr(bs[beg:]))
		}
		return out
	})
}

var regexTab = map[string]foreignFn{}
