package sym

import (
	"bufio"
	"fmt"
	"io"
	"math"
	"os/exec"
	"strconv"
	"strings"
	"time"
)

type Result int

const (
	Unsat Result = iota
	Sat
	Unknown
)

func (r Result) String() string { return [...]string{"unsat", "sat", "unknown"}[r] }

type Stats struct {
	Sat, Unsat, Unknown, Errors int
	Time                        time.Duration
}

// Solver is one persistent SMT solver process speaking SMT-LIB2 on stdin/out.
// Each path runs inside one push/pop scope; every non-leaf term is sent once
// per scope as a define-fun named after its Store ID.
type Solver struct {
	Bin     []string
	cmd     *exec.Cmd
	in      *bufio.Writer
	inRaw   io.WriteCloser
	out     *bufio.Reader
	defined map[int]bool
	inPath  bool
	Stats   Stats
	Timeout int // ms
	Log     io.Writer
	LastErr string
	dead    bool
}

func NewSolver(bin []string, timeoutMS int) (*Solver, error) {
	s := &Solver{Bin: bin, Timeout: timeoutMS}
	if err := s.start(); err != nil {
		return nil, err
	}
	return s, nil
}

func (s *Solver) start() error {
	s.cmd = exec.Command(s.Bin[0], s.Bin[1:]...)
	w, err := s.cmd.StdinPipe()
	if err != nil {
		return err
	}
	r, err := s.cmd.StdoutPipe()
	if err != nil {
		return err
	}
	s.cmd.Stderr = nil
	if err := s.cmd.Start(); err != nil {
		return err
	}
	s.inRaw = w
	s.in = bufio.NewWriterSize(w, 1<<16)
	s.out = bufio.NewReaderSize(r, 1<<16)
	s.defined = map[int]bool{}
	s.inPath = false
	if strings.Contains(s.Bin[0], "z3") {
		s.send(fmt.Sprintf("(set-option :timeout %d)", s.Timeout))
	} else {
		s.send("(set-logic ALL)")
	}
	s.send("(set-option :produce-models true)")
	return nil
}

func (s *Solver) Close() {
	if s.cmd != nil {
		s.inRaw.Close()
		s.cmd.Process.Kill()
		s.cmd.Wait()
		s.cmd = nil
	}
}

func (s *Solver) restart() {
	s.Close()
	if err := s.start(); err != nil {
		panic(err)
	}
}

func (s *Solver) send(line string) {
	if s.Log != nil {
		fmt.Fprintln(s.Log, line)
	}
	s.in.WriteString(line)
	s.in.WriteByte('\n')
}

func (s *Solver) BeginPath() {
	if s.inPath {
		s.EndPath()
	}
	s.send("(push 1)")
	s.defined = map[int]bool{}
	s.inPath = true
}

func (s *Solver) EndPath() {
	if s.inPath {
		s.send("(pop 1)")
		s.inPath = false
	}
}

// define makes sure t (and its sub-terms) are known to the solver and
// returns the name to use for it.
func (s *Solver) define(t *Term) string {
	if t.Op == OConst {
		return Head(t, nil)
	}
	name := fmt.Sprintf("t%d", t.ID)
	if t.Op == OVar {
		name = t.Name
	}
	if s.defined[t.ID] {
		return name
	}
	// iterative post-order to avoid deep recursion
	type fr struct {
		t *Term
		i int
	}
	stack := []fr{{t, 0}}
	for len(stack) > 0 {
		top := &stack[len(stack)-1]
		if top.t.Op == OConst || s.defined[top.t.ID] {
			stack = stack[:len(stack)-1]
			continue
		}
		if top.i < len(top.t.Args) {
			a := top.t.Args[top.i]
			top.i++
			if a.Op != OConst && !s.defined[a.ID] {
				stack = append(stack, fr{a, 0})
			}
			continue
		}
		u := top.t
		stack = stack[:len(stack)-1]
		s.defined[u.ID] = true
		if u.Op == OVar {
			s.send(fmt.Sprintf("(declare-const %s %s)", u.Name, u.Sort.SMT()))
			continue
		}
		s.send(fmt.Sprintf("(define-fun t%d () %s %s)", u.ID, u.Sort.SMT(), Head(u, s.ref)))
	}
	return name
}

func (s *Solver) ref(t *Term) string {
	switch t.Op {
	case OConst:
		return Head(t, nil)
	case OVar:
		return t.Name
	}
	return fmt.Sprintf("t%d", t.ID)
}

func (s *Solver) Assert(t *Term) {
	if t.IsTrue() {
		return
	}
	n := s.define(t)
	s.send(fmt.Sprintf("(assert %s)", n))
}

// Check decides satisfiability of the asserted path condition together with
// the given extra literals (each a Bool term).
func (s *Solver) Check(extra ...*Term) Result {
	var names []string
	for _, e := range extra {
		if e.IsTrue() {
			continue
		}
		if e.IsFalse() {
			return Unsat
		}
		names = append(names, s.define(e))
	}
	start := time.Now()
	if len(names) == 0 {
		s.send("(check-sat)")
	} else {
		s.send("(check-sat-assuming (" + strings.Join(names, " ") + "))")
	}
	s.in.Flush()
	res := s.readResult()
	s.Stats.Time += time.Since(start)
	switch res {
	case Sat:
		s.Stats.Sat++
	case Unsat:
		s.Stats.Unsat++
	default:
		s.Stats.Unknown++
	}
	return res
}

func (s *Solver) readResult() Result {
	for {
		line, err := s.out.ReadString('\n')
		if err != nil {
			s.Stats.Errors++
			s.LastErr = "solver died: " + err.Error()
			s.restartAfterDeath()
			return Unknown
		}
		line = strings.TrimSpace(line)
		switch {
		case line == "sat":
			return Sat
		case line == "unsat":
			return Unsat
		case line == "unknown" || line == "timeout":
			return Unknown
		case strings.HasPrefix(line, "(error"):
			s.Stats.Errors++
			s.LastErr = line
			// the check-sat answer still follows; consume it and report unknown
			for {
				l2, err := s.out.ReadString('\n')
				if err != nil {
					s.restartAfterDeath()
					return Unknown
				}
				l2 = strings.TrimSpace(l2)
				if l2 == "sat" || l2 == "unsat" || l2 == "unknown" {
					return Unknown
				}
			}
		case line == "" || line == "success":
		default:
			// unexpected output: be conservative
			s.LastErr = "unexpected solver output: " + line
		}
	}
}

// restartAfterDeath is a marker: the caller (engine) treats Unknown plus
// Dead() as a reason to restart the solver and retry the path.
func (s *Solver) restartAfterDeath() { s.dead = true }

func (s *Solver) Dead() bool { return s.dead }

func (s *Solver) Revive() {
	s.dead = false
	s.restart()
}

// GetModel reads values for vars after a Sat answer.
func (s *Solver) GetModel(vars []*Term) (Model, error) {
	m := Model{}
	if len(vars) == 0 {
		return m, nil
	}
	const chunk = 200
	for i := 0; i < len(vars); i += chunk {
		j := i + chunk
		if j > len(vars) {
			j = len(vars)
		}
		var names []string
		for _, v := range vars[i:j] {
			names = append(names, s.define(v))
		}
		s.send("(get-value (" + strings.Join(names, " ") + "))")
		s.in.Flush()
		txt, err := s.readSexp()
		if err != nil {
			return nil, err
		}
		if strings.HasPrefix(txt, "(error") {
			return nil, fmt.Errorf("get-value: %s", txt)
		}
		sx, _, err := parseSexp(txt, 0)
		if err != nil {
			return nil, err
		}
		for k, pair := range sx.list {
			if len(pair.list) != 2 {
				return nil, fmt.Errorf("bad get-value pair")
			}
			v := vars[i+k]
			val, err := parseValue(pair.list[1], v.Sort)
			if err != nil {
				return nil, fmt.Errorf("%s: %v", v.Name, err)
			}
			m[v.Name] = val
		}
	}
	return m, nil
}

func (s *Solver) readSexp() (string, error) {
	var b strings.Builder
	depth := 0
	started := false
	for {
		c, err := s.out.ReadByte()
		if err != nil {
			s.dead = true
			return "", err
		}
		if !started {
			if c == '(' {
				started = true
			} else {
				continue
			}
		}
		b.WriteByte(c)
		if c == '(' {
			depth++
		} else if c == ')' {
			depth--
			if depth == 0 {
				return b.String(), nil
			}
		} else if c == '"' {
			for {
				c2, err := s.out.ReadByte()
				if err != nil {
					return "", err
				}
				b.WriteByte(c2)
				if c2 == '"' {
					break
				}
			}
		}
	}
}

type sexp struct {
	atom string
	list []*sexp
	isL  bool
}

func parseSexp(s string, i int) (*sexp, int, error) {
	for i < len(s) && (s[i] == ' ' || s[i] == '\n' || s[i] == '\t' || s[i] == '\r') {
		i++
	}
	if i >= len(s) {
		return nil, i, fmt.Errorf("eof")
	}
	if s[i] == '(' {
		x := &sexp{isL: true}
		i++
		for {
			for i < len(s) && (s[i] == ' ' || s[i] == '\n' || s[i] == '\t' || s[i] == '\r') {
				i++
			}
			if i >= len(s) {
				return nil, i, fmt.Errorf("eof in list")
			}
			if s[i] == ')' {
				return x, i + 1, nil
			}
			c, j, err := parseSexp(s, i)
			if err != nil {
				return nil, j, err
			}
			x.list = append(x.list, c)
			i = j
		}
	}
	j := i
	for j < len(s) && s[j] != ' ' && s[j] != ')' && s[j] != '(' && s[j] != '\n' {
		j++
	}
	return &sexp{atom: s[i:j]}, j, nil
}

func parseBV(a string) (uint64, error) {
	switch {
	case strings.HasPrefix(a, "#x"):
		return strconv.ParseUint(a[2:], 16, 64)
	case strings.HasPrefix(a, "#b"):
		return strconv.ParseUint(a[2:], 2, 64)
	}
	return 0, fmt.Errorf("bad bv %q", a)
}

func parseValue(x *sexp, so Sort) (Val, error) {
	switch so.K {
	case KBool:
		return Val{U: b2u(x.atom == "true")}, nil
	case KBV:
		if x.isL {
			// (_ bv123 64)
			if len(x.list) == 3 && x.list[0].atom == "_" && strings.HasPrefix(x.list[1].atom, "bv") {
				u, err := strconv.ParseUint(x.list[1].atom[2:], 10, 64)
				return Val{U: u}, err
			}
			return Val{}, fmt.Errorf("bad bv value")
		}
		u, err := parseBV(x.atom)
		return Val{U: u}, err
	case KFP64, KFP32:
		if !x.isL {
			return Val{}, fmt.Errorf("bad fp value %q", x.atom)
		}
		if len(x.list) == 4 && x.list[0].atom == "fp" {
			sg, e1 := parseBV(x.list[1].atom)
			ex, e2 := parseBV(x.list[2].atom)
			mn, e3 := parseBV(x.list[3].atom)
			if e1 != nil || e2 != nil || e3 != nil {
				return Val{}, fmt.Errorf("bad fp triple")
			}
			if so.K == KFP32 {
				return Val{F: float64(math.Float32frombits(uint32(sg<<31 | ex<<23 | mn)))}, nil
			}
			return Val{F: math.Float64frombits(sg<<63 | ex<<52 | mn)}, nil
		}
		if len(x.list) == 4 && x.list[0].atom == "_" {
			switch x.list[1].atom {
			case "+zero":
				return Val{F: 0}, nil
			case "-zero":
				return Val{F: math.Copysign(0, -1)}, nil
			case "+oo":
				return Val{F: math.Inf(1)}, nil
			case "-oo":
				return Val{F: math.Inf(-1)}, nil
			case "NaN":
				return Val{F: math.NaN()}, nil
			}
		}
		return Val{}, fmt.Errorf("bad fp value")
	}
	return Val{}, fmt.Errorf("sort")
}
