// Package sym is the term language of bklsym: hash-consed, eagerly simplified
// SMT terms over Bool, fixed-width bit-vectors and IEEE-754 floats, an
// SMT-LIB2 printer and a concrete evaluator (used to cross-check solver
// models and to predict observations for native replay).
package sym

import (
	"fmt"
	"math"
	"math/bits"
	"strconv"
	"strings"
)

type Kind uint8

const (
	KBool Kind = iota
	KBV
	KFP64
	KFP32
)

type Sort struct {
	K Kind
	W uint8 // bit width for KBV
}

var (
	Bool = Sort{KBool, 0}
	BV8  = Sort{KBV, 8}
	BV16 = Sort{KBV, 16}
	BV32 = Sort{KBV, 32}
	BV64 = Sort{KBV, 64}
	FP64 = Sort{KFP64, 0}
	FP32 = Sort{KFP32, 0}
)

func BV(w int) Sort { return Sort{KBV, uint8(w)} }

func (s Sort) SMT() string {
	switch s.K {
	case KBool:
		return "Bool"
	case KBV:
		return fmt.Sprintf("(_ BitVec %d)", s.W)
	case KFP64:
		return "(_ FloatingPoint 11 53)"
	case KFP32:
		return "(_ FloatingPoint 8 24)"
	}
	panic("sort")
}

type Op uint8

const (
	OConst Op = iota
	OVar
	ONot
	OAnd
	OOr
	OEq  // any sort (for FP: structural "=" ; see OFEq for IEEE ==)
	OIte // cond, a, b
	// bit-vectors
	OAdd
	OSub
	OMul
	ONeg
	OBAnd
	OBOr
	OBXor
	OBNot
	OShl
	OLShr
	OAShr
	OSDiv
	OUDiv
	OSRem
	OURem
	OULt
	OULe
	OSLt
	OSLe
	OZExt    // to Sort.W
	OSExt    // to Sort.W
	OExtract // low bits, to Sort.W
	// floats
	OFAdd
	OFSub
	OFMul
	OFDiv
	OFNeg
	OFAbs
	OFEq
	OFLt
	OFLe
	OFIsNaN
	OFIsInf
	OFRTI     // round to integral, toward zero
	OFFromSBV // signed bv -> fp64, RNE
	OFFromUBV
	OFToSBV // fp64 -> signed bv of Sort.W, RTZ (unspecified when out of range)
	OFTo32  // fp64 -> fp32 RNE
	OFTo64  // fp32 -> fp64
	OFBits  // fp64 -> bv64 is not expressible as a function in SMT-LIB; unused
)

type Term struct {
	Op   Op
	Sort Sort
	Args []*Term
	U    uint64  // const payload for Bool (0/1) and BV
	F    float64 // const payload for FP (FP32 stored widened)
	Name string  // for OVar
	ID   int
}

func (t *Term) IsConst() bool { return t.Op == OConst }
func (t *Term) IsTrue() bool  { return t.Op == OConst && t.Sort.K == KBool && t.U == 1 }
func (t *Term) IsFalse() bool { return t.Op == OConst && t.Sort.K == KBool && t.U == 0 }

// Store hash-conses terms. A Store is used by exactly one path execution at a
// time (no locking).
type Store struct {
	tab    map[string]*Term
	nextID int
	vars   []*Term
	tt, ff *Term
	kbuf   []byte
	fv     map[int][]*Term
}

func NewStore() *Store {
	s := &Store{tab: map[string]*Term{}}
	s.ff = s.mk(&Term{Op: OConst, Sort: Bool, U: 0})
	s.tt = s.mk(&Term{Op: OConst, Sort: Bool, U: 1})
	return s
}

func (s *Store) Vars() []*Term { return s.vars }
func (s *Store) Size() int     { return s.nextID }

func (s *Store) key(t *Term) string {
	b := s.kbuf[:0]
	b = append(b, byte(t.Op), byte(t.Sort.K), t.Sort.W)
	switch t.Op {
	case OConst:
		var u uint64
		if t.Sort.K == KFP64 || t.Sort.K == KFP32 {
			u = math.Float64bits(t.F)
		} else {
			u = t.U
		}
		b = strconv.AppendUint(b, u, 16)
	case OVar:
		b = append(b, t.Name...)
	default:
		for _, a := range t.Args {
			b = strconv.AppendInt(b, int64(a.ID), 32)
			b = append(b, ',')
		}
	}
	s.kbuf = b
	return string(b)
}

func (s *Store) mk(t *Term) *Term {
	k := s.key(t)
	if e, ok := s.tab[k]; ok {
		return e
	}
	t.ID = s.nextID
	s.nextID++
	s.tab[k] = t
	if t.Op == OVar {
		s.vars = append(s.vars, t)
	}
	return t
}

func mask(w uint8) uint64 {
	if w >= 64 {
		return ^uint64(0)
	}
	return (uint64(1) << w) - 1
}

func sext(u uint64, w uint8) int64 {
	if w >= 64 {
		return int64(u)
	}
	sh := 64 - uint(w)
	return int64(u<<sh) >> sh
}

// ---- constructors ----

func (s *Store) True() *Term  { return s.tt }
func (s *Store) False() *Term { return s.ff }
func (s *Store) BoolC(b bool) *Term {
	if b {
		return s.tt
	}
	return s.ff
}

func (s *Store) BVC(w int, u uint64) *Term {
	return s.mk(&Term{Op: OConst, Sort: BV(w), U: u & mask(uint8(w))})
}

func (s *Store) FPC(f float64) *Term { return s.mk(&Term{Op: OConst, Sort: FP64, F: f}) }
func (s *Store) FP32C(f float32) *Term {
	return s.mk(&Term{Op: OConst, Sort: FP32, F: float64(f)})
}

func (s *Store) Var(name string, so Sort) *Term {
	return s.mk(&Term{Op: OVar, Sort: so, Name: name})
}

func (s *Store) app(op Op, so Sort, args ...*Term) *Term {
	return s.mk(&Term{Op: op, Sort: so, Args: args})
}

func (s *Store) Not(a *Term) *Term {
	if a.IsConst() {
		return s.BoolC(a.U == 0)
	}
	if a.Op == ONot {
		return a.Args[0]
	}
	return s.app(ONot, Bool, a)
}

func (s *Store) And(as ...*Term) *Term {
	var out []*Term
	seen := map[int]bool{}
	for _, a := range as {
		if a.IsFalse() {
			return s.ff
		}
		if a.IsTrue() {
			continue
		}
		if a.Op == OAnd {
			for _, b := range a.Args {
				if !seen[b.ID] {
					seen[b.ID] = true
					out = append(out, b)
				}
			}
			continue
		}
		if !seen[a.ID] {
			seen[a.ID] = true
			out = append(out, a)
		}
	}
	for _, a := range out {
		if a.Op == ONot && seen[a.Args[0].ID] {
			return s.ff
		}
	}
	switch len(out) {
	case 0:
		return s.tt
	case 1:
		return out[0]
	}
	return s.app(OAnd, Bool, out...)
}

func (s *Store) Or(as ...*Term) *Term {
	var out []*Term
	seen := map[int]bool{}
	for _, a := range as {
		if a.IsTrue() {
			return s.tt
		}
		if a.IsFalse() {
			continue
		}
		if a.Op == OOr {
			for _, b := range a.Args {
				if !seen[b.ID] {
					seen[b.ID] = true
					out = append(out, b)
				}
			}
			continue
		}
		if !seen[a.ID] {
			seen[a.ID] = true
			out = append(out, a)
		}
	}
	for _, a := range out {
		if a.Op == ONot && seen[a.Args[0].ID] {
			return s.tt
		}
	}
	switch len(out) {
	case 0:
		return s.ff
	case 1:
		return out[0]
	}
	return s.app(OOr, Bool, out...)
}

func (s *Store) Implies(a, b *Term) *Term { return s.Or(s.Not(a), b) }

func (s *Store) Eq(a, b *Term) *Term {
	if a.Sort != b.Sort {
		panic(fmt.Sprintf("Eq sort mismatch %v %v", a.Sort, b.Sort))
	}
	if a == b {
		if a.Sort.K == KFP64 || a.Sort.K == KFP32 {
			// structural equality: x = x holds also for NaN
			return s.tt
		}
		return s.tt
	}
	if a.IsConst() && b.IsConst() {
		switch a.Sort.K {
		case KFP64, KFP32:
			return s.BoolC(math.Float64bits(a.F) == math.Float64bits(b.F))
		default:
			return s.BoolC(a.U == b.U)
		}
	}
	if a.Sort.K == KBool {
		if a.IsConst() {
			a, b = b, a
		}
		if b.IsTrue() {
			return a
		}
		if b.IsFalse() {
			return s.Not(a)
		}
	}
	if a.ID > b.ID {
		a, b = b, a
	}
	return s.app(OEq, Bool, a, b)
}

func (s *Store) Ite(c, a, b *Term) *Term {
	if c.IsTrue() {
		return a
	}
	if c.IsFalse() {
		return b
	}
	if a == b {
		return a
	}
	if a.Sort.K == KBool {
		if a.IsTrue() && b.IsFalse() {
			return c
		}
		if a.IsFalse() && b.IsTrue() {
			return s.Not(c)
		}
	}
	return s.app(OIte, a.Sort, c, a, b)
}

func (s *Store) bvbin(op Op, a, b *Term) *Term {
	if a.Sort != b.Sort || a.Sort.K != KBV {
		panic(fmt.Sprintf("bvbin sort mismatch op=%d %v %v", op, a.Sort, b.Sort))
	}
	w := a.Sort.W
	if a.IsConst() && b.IsConst() {
		if r, ok := foldBV(op, w, a.U, b.U); ok {
			return s.BVC(int(w), r)
		}
	}
	// light identities
	switch op {
	case OAdd:
		if a.IsConst() && a.U == 0 {
			return b
		}
		if b.IsConst() && b.U == 0 {
			return a
		}
	case OSub:
		if b.IsConst() && b.U == 0 {
			return a
		}
		if a == b {
			return s.BVC(int(w), 0)
		}
	case OMul:
		if a.IsConst() && a.U == 1 {
			return b
		}
		if b.IsConst() && b.U == 1 {
			return a
		}
		if (a.IsConst() && a.U == 0) || (b.IsConst() && b.U == 0) {
			return s.BVC(int(w), 0)
		}
	case OBAnd:
		if a == b {
			return a
		}
	case OBOr:
		if a == b {
			return a
		}
	}
	return s.app(op, a.Sort, a, b)
}

func foldBV(op Op, w uint8, x, y uint64) (uint64, bool) {
	m := mask(w)
	switch op {
	case OAdd:
		return (x + y) & m, true
	case OSub:
		return (x - y) & m, true
	case OMul:
		return (x * y) & m, true
	case OBAnd:
		return x & y, true
	case OBOr:
		return x | y, true
	case OBXor:
		return x ^ y, true
	case OShl:
		if y >= uint64(w) {
			return 0, true
		}
		return (x << y) & m, true
	case OLShr:
		if y >= uint64(w) {
			return 0, true
		}
		return x >> y, true
	case OAShr:
		sx := sext(x, w)
		if y >= uint64(w) {
			y = uint64(w) - 1
		}
		return uint64(sx>>y) & m, true
	case OUDiv:
		if y == 0 {
			return m, true
		}
		return x / y, true
	case OURem:
		if y == 0 {
			return x, true
		}
		return x % y, true
	case OSDiv:
		sx, sy := sext(x, w), sext(y, w)
		if sy == 0 {
			if sx >= 0 {
				return m, true
			}
			return 1, true
		}
		if sy == -1 {
			return uint64(-sx) & m, true
		}
		return uint64(sx/sy) & m, true
	case OSRem:
		sx, sy := sext(x, w), sext(y, w)
		if sy == 0 {
			return x, true
		}
		if sy == -1 {
			return 0, true
		}
		return uint64(sx%sy) & m, true
	}
	return 0, false
}

func (s *Store) Add(a, b *Term) *Term  { return s.bvbin(OAdd, a, b) }
func (s *Store) Sub(a, b *Term) *Term  { return s.bvbin(OSub, a, b) }
func (s *Store) Mul(a, b *Term) *Term  { return s.bvbin(OMul, a, b) }
func (s *Store) BAnd(a, b *Term) *Term { return s.bvbin(OBAnd, a, b) }
func (s *Store) BOr(a, b *Term) *Term  { return s.bvbin(OBOr, a, b) }
func (s *Store) BXor(a, b *Term) *Term { return s.bvbin(OBXor, a, b) }
func (s *Store) Shl(a, b *Term) *Term  { return s.bvbin(OShl, a, b) }
func (s *Store) LShr(a, b *Term) *Term { return s.bvbin(OLShr, a, b) }
func (s *Store) AShr(a, b *Term) *Term { return s.bvbin(OAShr, a, b) }
func (s *Store) SDiv(a, b *Term) *Term { return s.bvbin(OSDiv, a, b) }
func (s *Store) UDiv(a, b *Term) *Term { return s.bvbin(OUDiv, a, b) }
func (s *Store) SRem(a, b *Term) *Term { return s.bvbin(OSRem, a, b) }
func (s *Store) URem(a, b *Term) *Term { return s.bvbin(OURem, a, b) }

func (s *Store) Neg(a *Term) *Term {
	if a.IsConst() {
		return s.BVC(int(a.Sort.W), -a.U)
	}
	return s.app(ONeg, a.Sort, a)
}

func (s *Store) BNot(a *Term) *Term {
	if a.IsConst() {
		return s.BVC(int(a.Sort.W), ^a.U)
	}
	return s.app(OBNot, a.Sort, a)
}

func (s *Store) bvcmp(op Op, a, b *Term) *Term {
	if a.Sort != b.Sort || a.Sort.K != KBV {
		panic(fmt.Sprintf("bvcmp sort mismatch %v %v", a.Sort, b.Sort))
	}
	if a.IsConst() && b.IsConst() {
		w := a.Sort.W
		switch op {
		case OULt:
			return s.BoolC(a.U < b.U)
		case OULe:
			return s.BoolC(a.U <= b.U)
		case OSLt:
			return s.BoolC(sext(a.U, w) < sext(b.U, w))
		case OSLe:
			return s.BoolC(sext(a.U, w) <= sext(b.U, w))
		}
	}
	if a == b {
		return s.BoolC(op == OULe || op == OSLe)
	}
	return s.app(op, Bool, a, b)
}

func (s *Store) ULt(a, b *Term) *Term { return s.bvcmp(OULt, a, b) }
func (s *Store) ULe(a, b *Term) *Term { return s.bvcmp(OULe, a, b) }
func (s *Store) SLt(a, b *Term) *Term { return s.bvcmp(OSLt, a, b) }
func (s *Store) SLe(a, b *Term) *Term { return s.bvcmp(OSLe, a, b) }

func (s *Store) ZExt(a *Term, w int) *Term {
	if int(a.Sort.W) == w {
		return a
	}
	if a.IsConst() {
		return s.BVC(w, a.U)
	}
	return s.app(OZExt, BV(w), a)
}

func (s *Store) SExt(a *Term, w int) *Term {
	if int(a.Sort.W) == w {
		return a
	}
	if a.IsConst() {
		return s.BVC(w, uint64(sext(a.U, a.Sort.W)))
	}
	return s.app(OSExt, BV(w), a)
}

func (s *Store) Extract(a *Term, w int) *Term {
	if int(a.Sort.W) == w {
		return a
	}
	if a.IsConst() {
		return s.BVC(w, a.U)
	}
	if (a.Op == OZExt || a.Op == OSExt) && int(a.Args[0].Sort.W) == w {
		return a.Args[0]
	}
	return s.app(OExtract, BV(w), a)
}

// ---- floats ----

func (s *Store) fbin(op Op, a, b *Term) *Term {
	if a.IsConst() && b.IsConst() {
		switch op {
		case OFAdd:
			return s.FPC(a.F + b.F)
		case OFSub:
			return s.FPC(a.F - b.F)
		case OFMul:
			return s.FPC(a.F * b.F)
		case OFDiv:
			return s.FPC(a.F / b.F)
		}
	}
	return s.app(op, FP64, a, b)
}

func (s *Store) FAdd(a, b *Term) *Term { return s.fbin(OFAdd, a, b) }
func (s *Store) FSub(a, b *Term) *Term { return s.fbin(OFSub, a, b) }
func (s *Store) FMul(a, b *Term) *Term { return s.fbin(OFMul, a, b) }
func (s *Store) FDiv(a, b *Term) *Term { return s.fbin(OFDiv, a, b) }

func (s *Store) FNeg(a *Term) *Term {
	if a.IsConst() {
		return s.FPC(-a.F)
	}
	return s.app(OFNeg, FP64, a)
}

func (s *Store) FAbs(a *Term) *Term {
	if a.IsConst() {
		return s.FPC(math.Abs(a.F))
	}
	return s.app(OFAbs, FP64, a)
}

func (s *Store) fcmp(op Op, a, b *Term) *Term {
	if a.IsConst() && b.IsConst() {
		switch op {
		case OFEq:
			return s.BoolC(a.F == b.F)
		case OFLt:
			return s.BoolC(a.F < b.F)
		case OFLe:
			return s.BoolC(a.F <= b.F)
		}
	}
	return s.app(op, Bool, a, b)
}

func (s *Store) FEq(a, b *Term) *Term { return s.fcmp(OFEq, a, b) }
func (s *Store) FLt(a, b *Term) *Term { return s.fcmp(OFLt, a, b) }
func (s *Store) FLe(a, b *Term) *Term { return s.fcmp(OFLe, a, b) }

func (s *Store) FIsNaN(a *Term) *Term {
	if a.IsConst() {
		return s.BoolC(math.IsNaN(a.F))
	}
	return s.app(OFIsNaN, Bool, a)
}

func (s *Store) FIsInf(a *Term) *Term {
	if a.IsConst() {
		return s.BoolC(math.IsInf(a.F, 0))
	}
	return s.app(OFIsInf, Bool, a)
}

func (s *Store) FRTI(a *Term) *Term {
	if a.IsConst() {
		return s.FPC(math.Trunc(a.F))
	}
	return s.app(OFRTI, FP64, a)
}

func (s *Store) FFromSBV(a *Term) *Term {
	if a.IsConst() {
		return s.FPC(float64(sext(a.U, a.Sort.W)))
	}
	return s.app(OFFromSBV, FP64, a)
}

func (s *Store) FFromUBV(a *Term) *Term {
	if a.IsConst() {
		return s.FPC(float64(a.U))
	}
	return s.app(OFFromUBV, FP64, a)
}

// FToSBV converts toward zero. Out-of-range and NaN results are left
// unspecified by SMT-LIB; callers guard them.
func (s *Store) FToSBV(a *Term, w int) *Term {
	if a.IsConst() && !math.IsNaN(a.F) && math.Abs(a.F) < 9.2e18 {
		return s.BVC(w, uint64(int64(a.F)))
	}
	return s.app(OFToSBV, BV(w), a)
}

func (s *Store) FTo32(a *Term) *Term {
	if a.IsConst() {
		return s.FP32C(float32(a.F))
	}
	return s.app(OFTo32, FP32, a)
}

func (s *Store) FTo64(a *Term) *Term {
	if a.IsConst() {
		return s.FPC(a.F)
	}
	return s.app(OFTo64, FP64, a)
}

// ---- printing ----

var opName = map[Op]string{
	ONot: "not", OAnd: "and", OOr: "or", OEq: "=", OIte: "ite",
	OAdd: "bvadd", OSub: "bvsub", OMul: "bvmul", ONeg: "bvneg",
	OBAnd: "bvand", OBOr: "bvor", OBXor: "bvxor", OBNot: "bvnot",
	OShl: "bvshl", OLShr: "bvlshr", OAShr: "bvashr",
	OSDiv: "bvsdiv", OUDiv: "bvudiv", OSRem: "bvsrem", OURem: "bvurem",
	OULt: "bvult", OULe: "bvule", OSLt: "bvslt", OSLe: "bvsle",
	OFAdd: "fp.add RNE", OFSub: "fp.sub RNE", OFMul: "fp.mul RNE", OFDiv: "fp.div RNE",
	OFNeg: "fp.neg", OFAbs: "fp.abs", OFEq: "fp.eq", OFLt: "fp.lt", OFLe: "fp.leq",
	OFIsNaN: "fp.isNaN", OFIsInf: "fp.isInfinite", OFRTI: "fp.roundToIntegral RTZ",
	OFFromSBV: "(_ to_fp 11 53) RNE", OFFromUBV: "(_ to_fp_unsigned 11 53) RNE",
	OFTo32: "(_ to_fp 8 24) RNE", OFTo64: "(_ to_fp 11 53) RNE",
}

func fpConstSMT(f float64, is32 bool) string {
	if is32 {
		b := math.Float32bits(float32(f))
		return fmt.Sprintf("(fp #b%01b #b%08b #b%023b)", b>>31, (b>>23)&0xff, b&0x7fffff)
	}
	b := math.Float64bits(f)
	return fmt.Sprintf("(fp #b%01b #b%011b #b%052b)", b>>63, (b>>52)&0x7ff, b&((1<<52)-1))
}

// Head prints the node t with its arguments referred to by name (ref).
func Head(t *Term, ref func(*Term) string) string {
	switch t.Op {
	case OConst:
		switch t.Sort.K {
		case KBool:
			if t.U == 1 {
				return "true"
			}
			return "false"
		case KBV:
			if t.Sort.W%4 == 0 {
				return fmt.Sprintf("#x%0*x", int(t.Sort.W)/4, t.U)
			}
			return fmt.Sprintf("#b%0*b", int(t.Sort.W), t.U)
		case KFP64:
			return fpConstSMT(t.F, false)
		case KFP32:
			return fpConstSMT(t.F, true)
		}
	case OVar:
		return t.Name
	case OZExt:
		return fmt.Sprintf("((_ zero_extend %d) %s)", int(t.Sort.W)-int(t.Args[0].Sort.W), ref(t.Args[0]))
	case OSExt:
		return fmt.Sprintf("((_ sign_extend %d) %s)", int(t.Sort.W)-int(t.Args[0].Sort.W), ref(t.Args[0]))
	case OExtract:
		return fmt.Sprintf("((_ extract %d 0) %s)", int(t.Sort.W)-1, ref(t.Args[0]))
	case OFToSBV:
		return fmt.Sprintf("((_ fp.to_sbv %d) RTZ %s)", t.Sort.W, ref(t.Args[0]))
	}
	n, ok := opName[t.Op]
	if !ok {
		panic(fmt.Sprintf("no SMT name for op %d", t.Op))
	}
	var b strings.Builder
	b.WriteByte('(')
	b.WriteString(n)
	for _, a := range t.Args {
		b.WriteByte(' ')
		b.WriteString(ref(a))
	}
	b.WriteByte(')')
	return b.String()
}

// String prints the full tree (debugging / samples; exponential on DAGs).
func (t *Term) String() string {
	return Head(t, func(a *Term) string { return a.String() })
}

// ---- evaluation under a model ----

type Val struct {
	U uint64
	F float64
}

type Model map[string]Val

func Eval(t *Term, m Model, memo map[int]Val) Val {
	if v, ok := memo[t.ID]; ok {
		return v
	}
	v := eval1(t, m, memo)
	memo[t.ID] = v
	return v
}

func b2u(b bool) uint64 {
	if b {
		return 1
	}
	return 0
}

func eval1(t *Term, m Model, memo map[int]Val) Val {
	arg := func(i int) Val { return Eval(t.Args[i], m, memo) }
	switch t.Op {
	case OConst:
		return Val{U: t.U, F: t.F}
	case OVar:
		v := m[t.Name]
		if t.Sort.K == KBV {
			v.U &= mask(t.Sort.W)
		}
		return v
	case ONot:
		return Val{U: 1 - arg(0).U}
	case OAnd:
		for i := range t.Args {
			if arg(i).U == 0 {
				return Val{U: 0}
			}
		}
		return Val{U: 1}
	case OOr:
		for i := range t.Args {
			if arg(i).U == 1 {
				return Val{U: 1}
			}
		}
		return Val{U: 0}
	case OEq:
		a, b := arg(0), arg(1)
		switch t.Args[0].Sort.K {
		case KFP64, KFP32:
			if math.IsNaN(a.F) && math.IsNaN(b.F) {
				return Val{U: 1}
			}
			return Val{U: b2u(math.Float64bits(a.F) == math.Float64bits(b.F))}
		}
		return Val{U: b2u(a.U == b.U)}
	case OIte:
		if arg(0).U == 1 {
			return arg(1)
		}
		return arg(2)
	case OAdd, OSub, OMul, OBAnd, OBOr, OBXor, OShl, OLShr, OAShr, OSDiv, OUDiv, OSRem, OURem:
		r, _ := foldBV(t.Op, t.Sort.W, arg(0).U, arg(1).U)
		return Val{U: r}
	case ONeg:
		return Val{U: (-arg(0).U) & mask(t.Sort.W)}
	case OBNot:
		return Val{U: (^arg(0).U) & mask(t.Sort.W)}
	case OULt:
		return Val{U: b2u(arg(0).U < arg(1).U)}
	case OULe:
		return Val{U: b2u(arg(0).U <= arg(1).U)}
	case OSLt:
		w := t.Args[0].Sort.W
		return Val{U: b2u(sext(arg(0).U, w) < sext(arg(1).U, w))}
	case OSLe:
		w := t.Args[0].Sort.W
		return Val{U: b2u(sext(arg(0).U, w) <= sext(arg(1).U, w))}
	case OZExt:
		return Val{U: arg(0).U}
	case OSExt:
		return Val{U: uint64(sext(arg(0).U, t.Args[0].Sort.W)) & mask(t.Sort.W)}
	case OExtract:
		return Val{U: arg(0).U & mask(t.Sort.W)}
	case OFAdd:
		return Val{F: arg(0).F + arg(1).F}
	case OFSub:
		return Val{F: arg(0).F - arg(1).F}
	case OFMul:
		return Val{F: arg(0).F * arg(1).F}
	case OFDiv:
		return Val{F: arg(0).F / arg(1).F}
	case OFNeg:
		return Val{F: -arg(0).F}
	case OFAbs:
		return Val{F: math.Abs(arg(0).F)}
	case OFEq:
		return Val{U: b2u(arg(0).F == arg(1).F)}
	case OFLt:
		return Val{U: b2u(arg(0).F < arg(1).F)}
	case OFLe:
		return Val{U: b2u(arg(0).F <= arg(1).F)}
	case OFIsNaN:
		return Val{U: b2u(math.IsNaN(arg(0).F))}
	case OFIsInf:
		return Val{U: b2u(math.IsInf(arg(0).F, 0))}
	case OFRTI:
		return Val{F: math.Trunc(arg(0).F)}
	case OFFromSBV:
		return Val{F: float64(sext(arg(0).U, t.Args[0].Sort.W))}
	case OFFromUBV:
		return Val{F: float64(arg(0).U)}
	case OFToSBV:
		f := arg(0).F
		if math.IsNaN(f) || math.Abs(f) >= 9.3e18 {
			return Val{U: 0}
		}
		return Val{U: uint64(int64(f)) & mask(t.Sort.W)}
	case OFTo32:
		return Val{F: float64(float32(arg(0).F))}
	case OFTo64:
		return Val{F: arg(0).F}
	}
	panic(fmt.Sprintf("eval: op %d", t.Op))
}

var _ = bits.Len

// Exported helpers for the interpreter's concrete arithmetic.
func FoldBV(op Op, w uint8, x, y uint64) (uint64, bool) { return foldBV(op, w, x, y) }
func Mask(w uint8) uint64                                { return mask(w) }

// SExtU sign-extends (signed) or zero-extends the w-bit pattern u to 64 bits.
func SExtU(u uint64, w uint8, signed bool) uint64 {
	if signed {
		return uint64(sext(u, w))
	}
	return u & mask(w)
}

// FreeVars returns the distinct variables of t if there are at most max of
// them, else nil,false. Results are cached per term.
func (s *Store) FreeVars(t *Term, max int) ([]*Term, bool) {
	if s.fv == nil {
		s.fv = map[int][]*Term{}
	}
	vs := s.freeVars(t, max)
	if len(vs) > max {
		return nil, false
	}
	return vs, true
}

var tooMany = make([]*Term, 64)

func (s *Store) freeVars(t *Term, max int) []*Term {
	switch t.Op {
	case OConst:
		return nil
	case OVar:
		return []*Term{t}
	}
	if v, ok := s.fv[t.ID]; ok {
		return v
	}
	var out []*Term
	for _, a := range t.Args {
		sub := s.freeVars(a, max)
		if len(sub) > max {
			out = tooMany
			break
		}
		for _, v := range sub {
			dup := false
			for _, o := range out {
				if o == v {
					dup = true
					break
				}
			}
			if !dup {
				out = append(out, v)
			}
		}
		if len(out) > max {
			out = tooMany
			break
		}
	}
	s.fv[t.ID] = out
	return out
}
