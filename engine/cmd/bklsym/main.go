// bklsym: bounded symbolic execution of gopatchy/bkl from go/ssa with an SMT
// solver deciding every branch and assertion. See /verif/DESIGN.md.
package main

import (
	"crypto/sha256"
	"encoding/json"
	"flag"
	"fmt"
	"os"
	"os/exec"
	"path/filepath"
	"runtime"
	"runtime/debug"
	"runtime/pprof"
	"sort"
	"strconv"
	"strings"
	"time"

	ex "bklsym/exec"

	"golang.org/x/tools/go/ssa"
)

const rootPath = "github.com/gopatchy/bkl"

// repoDir: the tree under test. Always /repo for the registered checks;
// BKLSYM_REPO points the engine at a scratch copy when a seeded change is
// tried out without touching /repo.
var repoDir = func() string {
	if d := os.Getenv("BKLSYM_REPO"); d != "" {
		return d
	}
	return "/repo"
}()

// verifDir: where harnesses, known findings, evidence and replays live
// (/verif, or a snapshot of it when started through run.sh from elsewhere).
var verifDir = func() string {
	if d := os.Getenv("VERIF_DIR"); d != "" {
		return d
	}
	return "/verif"
}()

func main() {
	debug.SetGCPercent(400)
	if len(os.Args) < 2 {
		usage()
	}
	switch os.Args[1] {
	case "check":
		os.Exit(cmdCheck(os.Args[2:]))
	case "run":
		os.Exit(cmdRun(os.Args[2:]))
	case "replay":
		os.Exit(cmdReplay(os.Args[2:]))
	case "selftest":
		os.Exit(cmdSelftest(os.Args[2:]))
	default:
		usage()
	}
}

func usage() {
	fmt.Fprintln(os.Stderr, "usage: bklsym check -property Cxx [-tier quick|thorough] | run -pkg dir -harness Name | replay <file> | selftest")
	os.Exit(2)
}

func goEnv() []string {
	env := os.Environ()
	set := func(k, v string) {
		for i, e := range env {
			if strings.HasPrefix(e, k+"=") {
				env[i] = k + "=" + v
				return
			}
		}
		env = append(env, k+"="+v)
	}
	set("GOFLAGS", "-mod=mod")
	set("GOPROXY", "off")
	set("GOTOOLCHAIN", "local")
	set("PATH", "/opt/veriftools/go1.26.8/bin:"+os.Getenv("PATH"))
	// GOSUMDB must stay unset: =off breaks builds of /repo
	for i, e := range env {
		if strings.HasPrefix(e, "GOSUMDB=") {
			env[i] = "GOSUMDB_UNUSED=1"
		}
	}
	return env
}

func init() {
	for _, e := range goEnv() {
		if i := strings.IndexByte(e, '='); i > 0 {
			os.Setenv(e[:i], e[i+1:])
		}
	}
	os.Unsetenv("GOSUMDB")
}

// pkgSpec: a package of /repo that harnesses are overlaid into.
type pkgSpec struct {
	Dir        string            // relative to /repo
	Path       string            // import path
	Name       string            // package clause
	HarnessDir string            // under /verif/harness
	Extra      map[string]string // extra overlay files: virtual name -> source path in /repo (copied verbatim)
}

var pkgSpecs = map[string]pkgSpec{
	"bkl":  {Dir: ".", Path: rootPath, Name: "bkl", HarnessDir: "bkl"},
	"bkld": {Dir: "cmd/bkld", Path: rootPath + "/cmd/bkld", Name: "main", HarnessDir: "bkld"},
	"bkli": {Dir: "cmd/bkli", Path: rootPath + "/cmd/bkli", Name: "main", HarnessDir: "bkli",
		Extra: map[string]string{"zz_verif_bkld_diff.go": "cmd/bkld/diff.go"}},
	"bklr":    {Dir: "cmd/bklr", Path: rootPath + "/cmd/bklr", Name: "main", HarnessDir: "bklr"},
	"wrapper": {Dir: "wrapper", Path: rootPath + "/wrapper", Name: "wrapper", HarnessDir: "wrapper"},
	"bklb":    {Dir: "cmd/bklb", Path: rootPath + "/cmd/bklb", Name: "main", HarnessDir: "bklb"},
}

// overlayFiles renders the harness files of a package: prelude templates with
// the package clause filled in, the harness sources, and verbatim copies.
func overlayFiles(ps pkgSpec) (map[string][]byte, error) {
	ov := map[string][]byte{}
	target := filepath.Join(repoDir, ps.Dir)
	tmpls, _ := filepath.Glob(filepath.Join(verifDir, "harness/prelude/*.tmpl"))
	for _, t := range tmpls {
		b, err := os.ReadFile(t)
		if err != nil {
			return nil, err
		}
		name := strings.TrimSuffix(filepath.Base(t), ".tmpl")
		src := strings.ReplaceAll(string(b), "PKGNAME", ps.Name)
		if ps.Path == rootPath {
			src = strings.ReplaceAll(src, "BKLIMPORT", "")
			src = strings.ReplaceAll(src, "BKLQ", "")
		} else {
			src = strings.ReplaceAll(src, "BKLIMPORT", "\t\"github.com/gopatchy/bkl\"")
			src = strings.ReplaceAll(src, "BKLQ", "bkl.")
		}
		ov[filepath.Join(target, name)] = []byte(src)
	}
	files, _ := filepath.Glob(filepath.Join(verifDir, "harness", ps.HarnessDir, "*.go"))
	for _, f := range files {
		b, err := os.ReadFile(f)
		if err != nil {
			return nil, err
		}
		ov[filepath.Join(target, filepath.Base(f))] = b
	}
	for virt, src := range ps.Extra {
		b, err := os.ReadFile(filepath.Join(repoDir, src))
		if err != nil {
			return nil, err
		}
		ov[filepath.Join(target, virt)] = append([]byte("//go:build verif\n\n"), b...)
	}
	return ov, nil
}

func loadPkg(ps pkgSpec, tier int) (*ex.Shared, error) {
	ov, err := overlayFiles(ps)
	if err != nil {
		return nil, err
	}
	// the replay test file is only for native runs
	for k := range ov {
		if strings.HasSuffix(k, "_test.go") {
			delete(ov, k)
		}
	}
	sh, err := ex.Load(ex.LoadConfig{
		RepoDir:    repoDir,
		RootPath:   rootPath,
		Patterns:   []string{"./" + ps.Dir},
		Overlay:    ov,
		BuildFlags: []string{"-tags=verif"},
	})
	if err != nil {
		return nil, err
	}
	sh.Tier = tier
	return sh, nil
}

// ---- native replay ----

type replayer struct {
	ps     pkgSpec
	tmp    string
	bin    string
	built  bool
	err    error
	buildS float64
}

func newReplayer(ps pkgSpec) *replayer { return &replayer{ps: ps} }

func (r *replayer) build() error {
	if r.built {
		return r.err
	}
	r.built = true
	start := time.Now()
	tmp, err := os.MkdirTemp("", "bklsym-replay-")
	if err != nil {
		r.err = err
		return err
	}
	r.tmp = tmp
	ov, err := overlayFiles(r.ps)
	if err != nil {
		r.err = err
		return err
	}
	repl := map[string]string{}
	i := 0
	for virt, content := range ov {
		real := filepath.Join(tmp, fmt.Sprintf("f%d_%s", i, filepath.Base(virt)))
		i++
		if err := os.WriteFile(real, content, 0o644); err != nil {
			r.err = err
			return err
		}
		repl[virt] = real
	}
	ovj, _ := json.Marshal(map[string]any{"Replace": repl})
	ovPath := filepath.Join(tmp, "overlay.json")
	os.WriteFile(ovPath, ovj, 0o644)
	r.bin = filepath.Join(tmp, "replay.test")
	cmd := exec.Command("go", "test", "-c", "-vet=off", "-tags", "verif", "-overlay", ovPath, "-o", r.bin, "./"+r.ps.Dir)
	cmd.Dir = repoDir
	cmd.Env = goEnv()
	out, err := cmd.CombinedOutput()
	r.buildS = time.Since(start).Seconds()
	if err != nil {
		r.err = fmt.Errorf("native replay build failed: %v\n%s", err, out)
	}
	return r.err
}

func (r *replayer) close() {
	if r.tmp != "" {
		os.RemoveAll(r.tmp)
	}
}

type replayOutcome struct {
	Outcome string
	Detail  string
	Obs     map[string]string
	Raw     string
}

type replayCase struct {
	Harness string       `json:"harness"`
	Tier    int          `json:"tier"`
	ND      []ex.NDValue `json:"nd"`
	// informational
	Property string            `json:"property,omitempty"`
	Kind     string            `json:"kind,omitempty"`
	AssertID string            `json:"assert,omitempty"`
	Msg      string            `json:"msg,omitempty"`
	Pkg      string            `json:"pkg,omitempty"`
	Predict  map[string]string `json:"predicted,omitempty"`
}

func (r *replayer) run(casePath string, timeout time.Duration) replayOutcome {
	if err := r.build(); err != nil {
		return replayOutcome{Outcome: "builderror", Detail: err.Error()}
	}
	// memory cap 4 GiB virtual via ulimit; time cap via timeout(1)
	sh := fmt.Sprintf("ulimit -v 8000000; exec timeout -s KILL %d %s -test.run '^TestVerifReplay$' -test.v -test.timeout 0", int(timeout.Seconds()), r.bin)
	cmd := exec.Command("sh", "-c", sh)
	cmd.Dir = filepath.Join(repoDir, r.ps.Dir)
	cmd.Env = append(goEnv(), "VERIF_REPLAY="+casePath)
	out, err := cmd.CombinedOutput()
	txt := string(out)
	ro := replayOutcome{Obs: map[string]string{}, Raw: txt}
	for _, line := range strings.Split(txt, "\n") {
		if strings.HasPrefix(line, "VOBS ") {
			p := strings.SplitN(line[5:], " ", 2)
			if len(p) == 2 {
				ro.Obs[p[0]] = p[1]
			}
		}
		if strings.HasPrefix(line, "VREPLAY outcome=") {
			rest := line[len("VREPLAY outcome="):]
			if i := strings.Index(rest, " detail="); i >= 0 {
				ro.Outcome = rest[:i]
				d, e := strconv.Unquote(rest[i+len(" detail="):])
				if e == nil {
					ro.Detail = d
				}
			} else {
				ro.Outcome = rest
			}
		}
	}
	if ro.Outcome == "" {
		switch {
		case strings.Contains(txt, "stack overflow") || strings.Contains(txt, "goroutine stack exceeds"):
			ro.Outcome = "crash"
			ro.Detail = "fatal error: stack overflow"
		case strings.Contains(txt, "out of memory") || strings.Contains(txt, "cannot allocate memory"):
			ro.Outcome = "crash"
			ro.Detail = "out of memory (8 GB cap)"
		case err != nil && (strings.Contains(err.Error(), "killed") || strings.Contains(err.Error(), "137")):
			ro.Outcome = "hang"
			ro.Detail = fmt.Sprintf("no result within %s (killed)", timeout)
		case strings.Contains(txt, "fatal error:"):
			ro.Outcome = "crash"
			ro.Detail = firstLineWith(txt, "fatal error:")
		default:
			ro.Outcome = "unknown"
			ro.Detail = truncate(txt, 400)
		}
	}
	return ro
}

func firstLineWith(txt, sub string) string {
	for _, l := range strings.Split(txt, "\n") {
		if strings.Contains(l, sub) {
			return l
		}
	}
	return ""
}

func truncate(s string, n int) string {
	if len(s) > n {
		return s[:n] + "..."
	}
	return s
}

// confirms: does the native outcome confirm the candidate?
func confirms(c *ex.Candidate, ro replayOutcome) bool {
	switch c.Kind {
	case "assert":
		return ro.Outcome == "assert:"+c.AssertID
	case "panic":
		return ro.Outcome == "panic" || ro.Outcome == "crash"
	case "fuel", "frames":
		return ro.Outcome == "hang" || ro.Outcome == "crash"
	}
	return false
}

func writeCase(dir string, rc replayCase) (string, error) {
	b, _ := json.MarshalIndent(rc, "", " ")
	h := sha256.Sum256(b)
	os.MkdirAll(dir, 0o755)
	p := filepath.Join(dir, fmt.Sprintf("%s-%s-%x.json", rc.Property, rc.Harness, h[:5]))
	return p, os.WriteFile(p, b, 0o644)
}

// ---- run: explore one harness (development aid) ----

func cmdRun(args []string) int {
	fs := flag.NewFlagSet("run", flag.ExitOnError)
	pkg := fs.String("pkg", "bkl", "package key")
	harness := fs.String("harness", "", "harness function")
	tier := fs.String("tier", "quick", "")
	workers := fs.Int("workers", runtime.NumCPU(), "")
	trace := fs.Bool("trace", false, "")
	maxPaths := fs.Int("max-paths", 0, "")
	order := fs.Bool("order", false, "map order mode")
	noreplay := fs.Bool("noreplay", false, "")
	prof := fs.String("cpuprofile", "", "")
	fs.Parse(args)
	if *prof != "" {
		f, _ := os.Create(*prof)
		pprof.StartCPUProfile(f)
		defer pprof.StopCPUProfile()
	}
	ps := pkgSpecs[*pkg]
	t := 0
	if *tier == "thorough" {
		t = 1
	}
	sh, err := loadPkg(ps, t)
	if err != nil {
		fmt.Fprintln(os.Stderr, err)
		return 2
	}
	rep, err := ex.Explore(sh, ex.ExploreConfig{
		Harness: *harness, PkgPath: ps.Path, Workers: *workers,
		Solver: []string{"z3", "-in"}, TimeoutMS: 10000,
		Cfg:      ex.Config{MaxSteps: 5_000_000, MaxFrames: 20000, Trace: *trace, OrderMode: *order},
		MaxPaths: *maxPaths, Samples: 3, Verbose: true,
	})
	if err != nil {
		fmt.Fprintln(os.Stderr, err)
		return 2
	}
	printReport(rep)
	if !*noreplay && len(rep.Candidates) > 0 {
		rp := newReplayer(ps)
		defer rp.close()
		for i, c := range rep.Candidates {
			if i >= 40 {
				break
			}
			p, _ := writeCase(filepath.Join(os.TempDir(), "bklsym-cases"), replayCase{Harness: c.Harness, Tier: t, ND: c.ND, Kind: c.Kind, AssertID: c.AssertID, Msg: c.Msg, Pkg: *pkg, Predict: c.Observes})
			ro := rp.run(p, 20*time.Second)
			fmt.Printf("candidate %d kind=%s assert=%s msg=%s pos=%s\n  native: outcome=%s detail=%s confirmed=%v\n  case=%s\n", i, c.Kind, c.AssertID, truncate(c.Msg, 200), c.Pos, ro.Outcome, truncate(ro.Detail, 300), confirms(c, ro), p)
			for k, v := range c.Observes {
				fmt.Printf("    %s = %s", k, prettyObs(v))
				if ro.Obs[k] != v {
					fmt.Printf("   NATIVE DIFFERS: %s", prettyObs(ro.Obs[k]))
				}
				fmt.Println()
			}
		}
	}
	return 0
}

func printReport(rep *ex.Report) {
	if rep.UnderApprox > 0 {
		fmt.Printf("  under-approximated paths (an argument of an unmodelled library call was concretised): %d\n", rep.UnderApprox)
	}
	fmt.Printf("harness %s: paths=%d ok=%d pruned=%d candidates=%d inconclusive=%d unsupported=%d outside=%d complete=%v wall=%.1fs\n",
		rep.Harness, rep.Paths, rep.OK, rep.Pruned, len(rep.Candidates), rep.Inconclusive, rep.Unsupported, rep.Outside, rep.Complete, rep.Wall.Seconds())
	fmt.Printf("  forks=%d decisions=%d asserts=%d discharged=%d unknowns=%d steps=%d solver{sat=%d unsat=%d unknown=%d err=%d}\n",
		rep.Forks, rep.Decisions, rep.Asserts, rep.Discharged, rep.Unknowns, rep.Steps, rep.Solver.Sat, rep.Solver.Unsat, rep.Solver.Unknown, rep.Solver.Errors)
	var cs []string
	for c, n := range rep.Covers {
		cs = append(cs, fmt.Sprintf("%s:%d", c, n))
	}
	sort.Strings(cs)
	fmt.Printf("  covers: %s\n", strings.Join(cs, " "))
	for r, n := range rep.Reasons {
		fmt.Printf("  reason x%d: %s\n", n, truncate(r, 300))
	}
}

func cmdReplay(args []string) int {
	if len(args) < 1 {
		usage()
	}
	b, err := os.ReadFile(args[0])
	if err != nil {
		fmt.Fprintln(os.Stderr, err)
		return 2
	}
	var rc replayCase
	if err := json.Unmarshal(b, &rc); err != nil {
		fmt.Fprintln(os.Stderr, err)
		return 2
	}
	ps, ok := pkgSpecs[rc.Pkg]
	if !ok {
		ps = pkgSpecs["bkl"]
	}
	rp := newReplayer(ps)
	defer rp.close()
	ro := rp.run(args[0], 30*time.Second)
	fmt.Printf("outcome=%s\n%s\n", ro.Outcome, ro.Detail)
	for k, v := range ro.Obs {
		fmt.Printf("obs %s = %s\n", k, prettyObs(v))
	}
	if ro.Outcome == "ok" {
		return 0
	}
	return 1
}

var _ = ssa.InstantiateGenerics

// prettyObs decodes the hex-encoded strings of the canonical rendering.
func prettyObs(s string) string {
	var out strings.Builder
	for i := 0; i < len(s); {
		if strings.HasPrefix(s[i:], "s:") {
			j := i + 2
			for j < len(s) && strings.IndexByte("0123456789abcdef", s[j]) >= 0 {
				j++
			}
			b := make([]byte, 0, (j-i)/2)
			for k := i + 2; k+1 < j; k += 2 {
				v, _ := strconv.ParseUint(s[k:k+2], 16, 8)
				b = append(b, byte(v))
			}
			out.WriteString(strconv.Quote(string(b)))
			i = j
			continue
		}
		out.WriteByte(s[i])
		i++
	}
	return out.String()
}
