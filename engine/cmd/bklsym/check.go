package main

func cmdCheck(args []string) int    { return 2 }
func cmdSelftest(args []string) int { return 2 }
