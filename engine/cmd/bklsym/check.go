package main

import (
	"encoding/json"
	"flag"
	"fmt"
	"os"
	"path/filepath"
	"runtime"
	"sort"
	"strings"
	"time"

	ex "bklsym/exec"

	"golang.org/x/tools/go/ssa"
)

// harnessSpec registers one harness function for a property.
type harnessSpec struct {
	Pkg      string   // key of pkgSpecs
	Func     string   // harness function name
	Tiers    string   // "q", "t" or "qt"
	Order    bool     // map-iteration order mode (C09)
	Covers   []string // reachability witnesses that must be hit (vacuity guard)
	MaxSteps int
	Samples  int    // passing paths replayed natively per run (default 6)
	Bound    string // human description of the bound for this harness
}

type propSpec struct {
	ID        string
	Harnesses []harnessSpec
	Assume    []string // assumptions / stubs that are part of the claim
	Outside   string
}

type knownFinding struct {
	Property string `json:"property"`
	ID       string `json:"id"`
	What     string `json:"what"`
	Witness  string `json:"witness"` // replay case file under /verif/known
	Expect   string `json:"expect"`  // native outcome that shows the defect
	Status   string `json:"status"`  // "known" or "fixed"
	Commit   string `json:"commit,omitempty"`
}

func loadKnown() []knownFinding {
	b, err := os.ReadFile(filepath.Join(verifDir, "known_findings.json"))
	if err != nil {
		return nil
	}
	var ks []knownFinding
	if err := json.Unmarshal(b, &ks); err != nil {
		fmt.Fprintln(os.Stderr, "known_findings.json:", err)
		os.Exit(2)
	}
	return ks
}

type harnessEvidence struct {
	Harness      string         `json:"harness"`
	Package      string         `json:"package"`
	Bound        string         `json:"bound"`
	Paths        int            `json:"paths"`
	OK           int            `json:"paths_ok"`
	Pruned       int            `json:"paths_pruned_by_assume"`
	Outside      int            `json:"paths_outside_alphabet"`
	Inconclusive int            `json:"paths_inconclusive"`
	Unsupported  int            `json:"paths_unsupported"`
	Forks        int            `json:"solver_decided_forks"`
	Decisions    int            `json:"decisions"`
	Asserts      int            `json:"assert_obligations"`
	Discharged   int            `json:"assert_discharged"`
	Candidates   int            `json:"candidates"`
	Complete     bool           `json:"bound_explored_completely"`
	Covers       map[string]int `json:"covers"`
	MissingCover []string       `json:"missing_covers,omitempty"`
	Reasons      map[string]int `json:"reasons,omitempty"`
	Queries      map[string]int `json:"queries"`
	SolverS      float64        `json:"solver_time_s"`
	WallS        float64        `json:"wall_s"`
	Steps        int64          `json:"ssa_instructions_executed"`
	UnderApprox  int            `json:"under_approximated_paths"`
	Stubs        map[string]int `json:"foreign_calls"`
	GlobalStores map[string]int `json:"stores_to_package_vars_after_init,omitempty"`
}

func cmdCheck(args []string) int {
	fs := flag.NewFlagSet("check", flag.ExitOnError)
	prop := fs.String("property", "", "property id")
	tierS := fs.String("tier", "", "quick|thorough")
	workers := fs.Int("workers", runtime.NumCPU(), "")
	only := fs.String("only", "", "run only this harness")
	fs.Parse(args)
	if *tierS == "" {
		*tierS = os.Getenv("VERIF_TIER")
	}
	if *tierS == "" {
		*tierS = "quick"
	}
	tier := 0
	if *tierS == "thorough" {
		tier = 1
	}
	seed := 0
	fmt.Sscan(os.Getenv("VERIF_SEED"), &seed)
	ps, ok := registry[*prop]
	if !ok {
		fmt.Fprintf(os.Stderr, "unknown property %q\n", *prop)
		return 2
	}
	start := time.Now()
	shared := map[string]*ex.Shared{}
	replayers := map[string]*replayer{}
	defer func() {
		for _, r := range replayers {
			r.close()
		}
	}()
	getRp := func(pkg string) *replayer {
		if r, ok := replayers[pkg]; ok {
			return r
		}
		r := newReplayer(pkgSpecs[pkg])
		replayers[pkg] = r
		return r
	}

	var hev []harnessEvidence
	var samples []any
	violations := 0
	var violationLines []string
	skippedAfterViolation := false
	inconclusive := false
	vacuous := false
	tracesValidated := 0
	traceMismatch := 0
	discrepancies := []string{}
	totalStates, totalTransitions, totalAsserts, totalDischarged := 0, 0, 0, 0
	distinct := 0
	funcsEncoded := map[string][2]int{}
	known := loadKnown()
	knownHit := map[string]bool{}

	for _, hs := range ps.Harnesses {
		if *only != "" && hs.Func != *only {
			continue
		}
		if !strings.Contains(hs.Tiers, (*tierS)[:1]) {
			continue
		}
		sh := shared[hs.Pkg]
		if sh == nil {
			var err error
			sh, err = loadPkg(pkgSpecs[hs.Pkg], tier)
			if err != nil {
				fmt.Fprintf(os.Stderr, "load %s: %v\n", hs.Pkg, err)
				return 2
			}
			shared[hs.Pkg] = sh
		}
		maxSteps := hs.MaxSteps
		if maxSteps == 0 {
			maxSteps = 5_000_000
		}
		budget := 20 * time.Minute
		if tier == 1 {
			budget = 40 * time.Minute
		}
		if b := os.Getenv("BKLSYM_BUDGET_MIN"); b != "" {
			var n int
			if _, err := fmt.Sscan(b, &n); err == nil && n > 0 {
				budget = time.Duration(n) * time.Minute
			}
		}
		timeout := 10000
		if tier == 1 {
			timeout = 60000
		}
		rep, err := ex.Explore(sh, ex.ExploreConfig{
			Harness: hs.Func, PkgPath: pkgSpecs[hs.Pkg].Path, Workers: *workers,
			Solver: []string{"z3", "-in"}, TimeoutMS: timeout,
			Cfg:      ex.Config{MaxSteps: maxSteps, MaxFrames: 20000, OrderMode: hs.Order, OrderBudget: 1 + tier},
			Deadline: time.Now().Add(budget), Samples: nz(hs.Samples, 6), Verbose: os.Getenv("BKLSYM_VERBOSE") != "",
		})
		if err != nil {
			fmt.Fprintf(os.Stderr, "explore %s: %v\n", hs.Func, err)
			return 2
		}
		he := harnessEvidence{
			Harness: hs.Func, Package: pkgSpecs[hs.Pkg].Path, Bound: hs.Bound,
			Paths: rep.Paths, OK: rep.OK, Pruned: rep.Pruned, Outside: rep.Outside,
			Inconclusive: rep.Inconclusive, Unsupported: rep.Unsupported,
			Forks: rep.Forks, Decisions: rep.Decisions, Asserts: rep.Asserts, Discharged: rep.Discharged,
			Candidates: len(rep.Candidates), Complete: rep.Complete, Covers: rep.Covers, Reasons: rep.Reasons,
			Queries: map[string]int{"sat": rep.Solver.Sat, "unsat": rep.Solver.Unsat, "unknown": rep.Solver.Unknown, "errors": rep.Solver.Errors},
			SolverS: rep.Solver.Time.Seconds(), WallS: rep.Wall.Seconds(), Steps: rep.Steps,
			UnderApprox: rep.UnderApprox, Stubs: rep.Foreign, GlobalStores: rep.GlobalStores,
		}
		for _, c := range hs.Covers {
			if rep.Covers[c] == 0 {
				he.MissingCover = append(he.MissingCover, c)
			}
		}
		if !rep.Complete {
			inconclusive = true
		}
		if len(he.MissingCover) > 0 && rep.Complete && len(rep.Candidates) == 0 {
			vacuous = true
		}
		totalStates += rep.OK + len(rep.Candidates)
		totalTransitions += rep.Forks
		totalAsserts += rep.Asserts
		totalDischarged += rep.Discharged
		distinct += rep.OK

		// replay gate
		seen := 0
		for _, c := range rep.Candidates {
			seen++
			if seen > 8 {
				break
			}
			rc := replayCase{Harness: c.Harness, Tier: tier, ND: c.ND, Property: ps.ID, Kind: c.Kind, AssertID: c.AssertID, Msg: c.Msg, Pkg: hs.Pkg, Predict: c.Observes}
			p, err := writeCase(filepath.Join(verifDir, "replays"), rc)
			if err != nil {
				fmt.Fprintln(os.Stderr, err)
				return 2
			}
			ro := getRp(hs.Pkg).run(p, 30*time.Second)
			if ro.Outcome == "builderror" {
				fmt.Fprintln(os.Stderr, ro.Detail)
				return 2
			}
			if confirms(c, ro) {
				violations++
				what := c.AssertID
				if c.Kind != "assert" {
					what = c.Kind + ": " + truncate(c.Msg, 120)
				}
				violationLines = append(violationLines, fmt.Sprintf("VIOLATION property=%s replay=%s", ps.ID, p))
				fmt.Println(violationLines[len(violationLines)-1])
				fmt.Fprintf(os.Stderr, "confirmed: %s in %s (%s) native=%s %s\n", what, hs.Func, c.Pos, ro.Outcome, truncate(ro.Detail, 200))
				samples = append(samples, map[string]any{"kind": "violation", "harness": hs.Func, "what": what, "nd": c.ND, "replay": p})
			} else {
				os.Remove(p)
				discrepancies = append(discrepancies, fmt.Sprintf("%s: engine %s/%s, native %s", hs.Func, c.Kind, c.AssertID, ro.Outcome))
				inconclusive = true
			}
		}
		// translator validation on passing paths
		for i, s := range rep.Samples {
			rc := replayCase{Harness: hs.Func, Tier: tier, ND: s.ND, Property: ps.ID, Kind: "sample", Pkg: hs.Pkg, Predict: s.Observes}
			p, err := writeCase(filepath.Join(os.TempDir(), "bklsym-samples"), rc)
			if err != nil {
				continue
			}
			ro := getRp(hs.Pkg).run(p, 30*time.Second)
			os.Remove(p)
			okk := ro.Outcome == "ok"
			for k, v := range s.Observes {
				if ro.Obs[k] != v {
					okk = false
				}
			}
			if okk {
				tracesValidated++
			} else if strings.HasPrefix(ro.Outcome, "assert:") || ro.Outcome == "panic" || ro.Outcome == "hang" || ro.Outcome == "crash" {
				// The real code, run natively on this input, breaks the
				// property although the engine's path passed: an assumption
				// at the library/codec boundary (e.g. "a codec is a pure
				// function of its data") does not hold for this tree. The
				// native run is the witness; it is reported like any other
				// replay-confirmed violation.
				traceMismatch++
				rc.Kind, rc.Msg = "native-only", ro.Outcome
				rp, err := writeCase(filepath.Join(verifDir, "replays"), rc)
				if err == nil {
					violations++
					violationLines = append(violationLines, fmt.Sprintf("VIOLATION property=%s replay=%s", ps.ID, rp))
					fmt.Println(violationLines[len(violationLines)-1])
					fmt.Fprintf(os.Stderr, "confirmed (native only; the engine's boundary assumptions hid it): %s in %s %s\n", ro.Outcome, hs.Func, truncate(ro.Detail, 200))
					samples = append(samples, map[string]any{"kind": "violation (native only)", "harness": hs.Func, "what": ro.Outcome, "nd": s.ND, "replay": rp})
				}
			} else {
				traceMismatch++
				discrepancies = append(discrepancies, fmt.Sprintf("%s: passing path replays natively as %s (%s)", hs.Func, ro.Outcome, truncate(ro.Detail, 200)))
				inconclusive = true
			}
			if i < 2 {
				samples = append(samples, map[string]any{"kind": "passing-path instance", "harness": hs.Func, "nd": s.ND, "observes": s.Observes, "decisions": s.Decision})
			}
		}
		hev = append(hev, he)
		collectFuncs(sh, funcsEncoded)
		if violations > 0 {
			// the property is violated: the remaining harnesses would only
			// add more witnesses (and, on a broken tree, may run for long)
			skippedAfterViolation = true
			dumpBlocks(sh, ps.ID+"-"+hs.Func)
			break
		}
		dumpBlocks(sh, ps.ID+"-"+hs.Func)
	}

	// known findings: replay each witness; report those that still reproduce
	for _, k := range known {
		if k.Property != ps.ID {
			continue
		}
		if k.Status == "fixed" {
			continue
		}
		b, err := os.ReadFile(filepath.Join(verifDir, k.Witness))
		if err != nil {
			fmt.Fprintf(os.Stderr, "known finding %s: witness missing: %v\n", k.ID, err)
			return 2
		}
		var rc replayCase
		json.Unmarshal(b, &rc)
		ro := getRp(rc.Pkg).run(filepath.Join(verifDir, k.Witness), 30*time.Second)
		if ro.Outcome == k.Expect || (k.Expect == "crash" && (ro.Outcome == "hang" || ro.Outcome == "panic")) {
			fmt.Printf("KNOWN-FINDING: property=%s %s [%s]\n", ps.ID, k.What, k.ID)
			knownHit[k.ID] = true
		} else {
			fmt.Fprintf(os.Stderr, "note: known finding %s no longer reproduces (native outcome %s)\n", k.ID, ro.Outcome)
		}
	}

	// (VIOLATION lines were printed as soon as each was confirmed)

	var fe []string
	for f, c := range funcsEncoded {
		fe = append(fe, fmt.Sprintf("%s blocks %d/%d", f, c[0], c[1]))
	}
	sort.Strings(fe)
	if len(samples) == 0 {
		samples = append(samples, map[string]any{"kind": "none", "note": "no path completed"})
	}
	ev := map[string]any{
		"property_id": ps.ID,
		"tier":        *tierS,
		"seed":        seed,
		"level":       "model_checking",
		"wall_s":      time.Since(start).Seconds(),
		"violations":  violations,
		"assumptions": ps.Assume,
		"coverage": map[string]any{
			"states":                            max1(totalStates),
			"transitions":                       max1(totalTransitions),
			"traces_validated_against_impl":     tracesValidated,
			"samples":                           samples,
			"obligations":                       totalAsserts,
			"discharged":                        totalDischarged,
			"evaluations":                       max1(totalStates),
			"distinct_nontrivial":               distinct,
			"rule":                              "states = feasible terminal paths of the harness (distinct decision vectors; each stands for every value of the symbolic leaves satisfying its path condition); transitions = branch decisions on symbolic data where the solver found both sides feasible; obligations = assertion queries PC ∧ ¬assert, discharged = answered unsat (or concretely true)",
			"exhaustive":                        !inconclusive && !skippedAfterViolation,
			"harnesses_skipped_after_violation": skippedAfterViolation,
			"harnesses":                         hev,
			"functions_encoded":                 fe,
			"outside_the_bound":                 ps.Outside,
			"trace_mismatches":                  traceMismatch,
			"engine_native_discrepancies":       discrepancies,
			"known_findings_reproduced":         keys(knownHit),
			"explanation":                       "bounded symbolic execution of the real SSA of /repo (regenerated this run); every branch on symbolic data and every assertion decided by z3; candidates reported only after native replay",
		},
	}
	// evidence describes /repo; a run against another tree (BKLSYM_REPO, used
	// by tools/seedtest.sh) must not overwrite it
	evDir := filepath.Join(verifDir, "evidence")
	if repoDir != "/repo" {
		evDir = filepath.Join(os.TempDir(), "bklsym-evidence-other-tree")
	}
	os.MkdirAll(evDir, 0o755)
	b, _ := json.MarshalIndent(ev, "", " ")
	if err := os.WriteFile(filepath.Join(evDir, ps.ID+".json"), b, 0o644); err != nil {
		fmt.Fprintln(os.Stderr, err)
		return 2
	}
	for _, he := range hev {
		fmt.Fprintf(os.Stderr, "%s: paths=%d ok=%d pruned=%d cand=%d complete=%v asserts=%d/%d wall=%.1fs missing=%v\n", he.Harness, he.Paths, he.OK, he.Pruned, he.Candidates, he.Complete, he.Discharged, he.Asserts, he.WallS, he.MissingCover)
		for r, n := range he.Reasons {
			fmt.Fprintf(os.Stderr, "   reason x%d: %s\n", n, truncate(r, 300))
		}
	}
	for _, d := range discrepancies {
		fmt.Fprintln(os.Stderr, "discrepancy:", d)
	}
	if violations > 0 {
		return 1
	}
	if vacuous {
		fmt.Println("VACUOUS: a reachability witness was not hit; the harness is broken")
		return 2
	}
	if inconclusive {
		fmt.Printf("INCONCLUSIVE property=%s: the bound was not explored completely (see evidence); nothing is claimed for the unexplored part\n", ps.ID)
		return 0
	}
	fmt.Printf("PASS property=%s tier=%s states=%d obligations=%d/%d validated=%d wall=%.0fs\n", ps.ID, *tierS, totalStates, totalDischarged, totalAsserts, tracesValidated, time.Since(start).Seconds())
	return 0
}

func nz(n, d int) int {
	if n == 0 {
		return d
	}
	return n
}

func max1(n int) int {
	if n < 1 {
		return 1
	}
	return n
}

func keys(m map[string]bool) []string {
	out := []string{}
	for k := range m {
		out = append(out, k)
	}
	sort.Strings(out)
	return out
}

// dumpBlocks (development aid, BKLSYM_COVDUMP=<dir>): block-level coverage of
// the target's functions, one JSON line per function, so that the union over
// all properties shows code no harness reaches.
func dumpBlocks(sh *ex.Shared, tag string) {
	dir := os.Getenv("BKLSYM_COVDUMP")
	if dir == "" {
		return
	}
	os.MkdirAll(dir, 0o755)
	f, err := os.OpenFile(filepath.Join(dir, tag+".jsonl"), os.O_APPEND|os.O_CREATE|os.O_WRONLY, 0o644)
	if err != nil {
		return
	}
	defer f.Close()
	covered := map[*ssa.Function]map[int]bool{}
	sh.Blocks.Range(func(k, _ any) bool {
		b := k.(*ssa.BasicBlock)
		if covered[b.Parent()] == nil {
			covered[b.Parent()] = map[int]bool{}
		}
		covered[b.Parent()][b.Index] = true
		return true
	})
	for fn, cs := range covered {
		pos := sh.Fset.Position(fn.Pos())
		file := filepath.Base(pos.Filename)
		if strings.HasPrefix(file, "zz_verif_") || file == "" || !strings.Contains(fn.String(), "gopatchy/bkl") {
			continue
		}
		type blk struct {
			I    int  `json:"i"`
			Line int  `json:"line"`
			Cov  bool `json:"cov"`
		}
		var bl []blk
		for _, b := range fn.Blocks {
			line := 0
			for _, in := range b.Instrs {
				if in.Pos().IsValid() {
					line = sh.Fset.Position(in.Pos()).Line
					break
				}
			}
			bl = append(bl, blk{b.Index, line, cs[b.Index]})
		}
		j, _ := json.Marshal(map[string]any{"fn": fn.String(), "file": file, "blocks": bl})
		f.Write(append(j, '\n'))
	}
}

func collectFuncs(sh *ex.Shared, out map[string][2]int) {
	cov := map[*ssa.Function]int{}
	sh.Blocks.Range(func(k, _ any) bool {
		b := k.(*ssa.BasicBlock)
		cov[b.Parent()]++
		return true
	})
	for fn, n := range cov {
		file := filepath.Base(sh.Fset.Position(fn.Pos()).Filename)
		if strings.HasPrefix(file, "zz_verif_") || file == "" || file == "." {
			continue
		}
		name := fn.String()
		if !strings.Contains(name, "gopatchy/bkl") {
			continue
		}
		name = strings.ReplaceAll(name, "github.com/gopatchy/bkl", "bkl")
		out[name] = [2]int{n, len(fn.Blocks)}
	}
}

func cmdSelftest(args []string) int { return selftest() }
