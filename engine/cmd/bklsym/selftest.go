package main

func selftest() int { return 0 }
