package main

import (
	"fmt"
	"os"
	"os/exec"
	"time"

	ex "bklsym/exec"
)

// selftest: the solver is present and answers; the engine's symbolic string
// models agree with the real library functions on a table of inputs (each
// input is a symbolic string pinned by an assumption, so the symbolic model
// is what runs).
func selftest() int {
	out, err := exec.Command("z3", "--version").CombinedOutput()
	if err != nil {
		fmt.Fprintf(os.Stderr, "selftest: z3 not runnable: %v\n", err)
		return 2
	}
	fmt.Printf("selftest: %s", out)
	ps := pkgSpecs["bkl"]
	sh, err := loadPkg(ps, 0)
	if err != nil {
		fmt.Fprintln(os.Stderr, "selftest: load:", err)
		return 2
	}
	rep, err := ex.Explore(sh, ex.ExploreConfig{
		Harness: "HarnessSelf_models", PkgPath: ps.Path, Workers: 8,
		Solver: []string{"z3", "-in"}, TimeoutMS: 10000,
		Cfg:      ex.Config{MaxSteps: 5_000_000, MaxFrames: 20000},
		Deadline: time.Now().Add(5 * time.Minute),
	})
	if err != nil {
		fmt.Fprintln(os.Stderr, "selftest:", err)
		return 2
	}
	if !rep.Complete || len(rep.Candidates) > 0 || rep.Covers["self.checked"] == 0 {
		printReport(rep)
		for _, c := range rep.Candidates {
			fmt.Fprintf(os.Stderr, "selftest: model disagreement: %s %s\n", c.AssertID, c.Msg)
		}
		return 2
	}
	fmt.Printf("selftest: string models agree with the library on %d paths (%d assertions)\n", rep.OK, rep.Asserts)
	return 0
}
