package main

var registry = map[string]propSpec{}

func reg(p propSpec) { registry[p.ID] = p }

var stdAssume = []string{
	"go/packages + go/ssa IR is faithful to the compiler; bklsym's Go semantics (validated per run by native replay of sampled paths)",
	"z3 4.8.12 answers are correct (models are re-evaluated by bklsym's own term evaluator before use)",
	"fmt.Errorf: error value wrapping its %w operands, text opaque when operands are symbolic",
	"yaml.Marshal∘yaml.Unmarshal in deepClone: structural copy with int64→int, integral float64 (|x|<1e6)→int, `<<` key = YAML merge key (concrete sub-trees go through the real yaml.v3)",
	"map iteration in insertion order except in order-mode harnesses (C09), where every order is explored",
}

func init() {
	reg(propSpec{
		ID: "C01",
		Harnesses: []harnessSpec{
			{Pkg: "bkl", Func: "HarnessC01_match", Tiers: "qt", Covers: []string{"match.true", "match.false"},
				Bound: "match(obj,pat): objects depth<=2, keys {a,b}, lists<=2, symbolic-kind scalar leaves; patterns depth<=1 (quick) / 2 (thorough), optional $invert:true, lists<=2"},
			{Pkg: "bkl", Func: "HarnessC01_kinds", Tiers: "qt", Covers: []string{"merge.accepted", "merge.rejected"},
				Bound: "merge+validate vs specMerge on the kind matrix {nil,scalar,{},{a:s},[],[s]}^2"},
			{Pkg: "bkl", Func: "HarnessC01_mapmap", Tiers: "qt", Covers: []string{"merge.accepted", "merge.rejected"},
				Bound: "map over map, keys {a,b}; quick: parent scalar values (incl. nil, $required), child values scalar/$delete + $replace:true/false and misplaced $match key; thorough: both sides depth<=2 with lists<=1 and every list directive entry form"},
			{Pkg: "bkl", Func: "HarnessC01_spine", Tiers: "t", Covers: []string{"merge.accepted", "merge.rejected"},
				Bound: "3-level spine a.b.{a,b} with the depth-1 map family at the bottom"},
			{Pkg: "bkl", Func: "HarnessC01_listlist", Tiers: "qt", Covers: []string{"merge.accepted", "merge.rejected"},
				Bound: "list over list: parent<=2 entries of {scalar,$required,{a},{a,b}}; child<=1 (quick) / <=2 (thorough) entries from all 11 forms (scalar, \"$replace\", {$replace:true}[+extra key], {$delete:p}[+extra], {$match:p,..}, {$match:p,$value:v}[+extra], plain map, bare \"$delete\"); patterns scalar/{}/{a}/{a,$invert}/[s]"},
			{Pkg: "bkl", Func: "HarnessC01_listpair", Tiers: "qt", Covers: []string{"merge.accepted", "merge.rejected"},
				Bound: "two editing list entries in sequence; quick: two $match entries over exactly two parent entries; thorough: pairs from {scalar,$delete,$match,$match+$value} over parent<=2"},
		},
		Assume:  stdAssume,
		Outside: "deeper/wider trees and longer lists; chains of 3-4 layers (a chain step is a merge whose parent is an arbitrary tree of the bound; multi-layer histories are exercised under C02); null anywhere in the child, NaN, $invert with a non-true value (documentation silent: excluded, neither pinned nor forbidden); string leaves other than plain tokens s0..s3 and the directive strings placed by the generators (string contents: C06/C07)",
	})

	toolAssume := append([]string{
		"reflect.DeepEqual: structural model (nil and empty containers differ), leaf comparisons as formulas",
		"bkl.New: os.OpenRoot(\"/\") returns an opaque root handle; os.Environ is empty unless the harness sets it",
	}, stdAssume...)
	reg(propSpec{
		ID: "C15",
		Harnesses: []harnessSpec{
			{Pkg: "bkld", Func: "HarnessC15_kinds", Tiers: "qt", Covers: []string{"diff.same", "diff.changed"},
				Bound: "kind matrix {scalar,{},{a:s},[],[s]}^2 at one key next to an unchanged key"},
			{Pkg: "bkld", Func: "HarnessC15_maps", Tiers: "qt", Covers: []string{"diff.same", "diff.changed"},
				Bound: "quick: {a: scalar|flat map|[], b: scalar?} on both sides; thorough: all pairs of maps of depth<=2 over keys {a,b}"},
			{Pkg: "bkld", Func: "HarnessC15_lists", Tiers: "qt", Covers: []string{"diff.same", "diff.changed"},
				Bound: "a list under one key on both sides, length<=2 (quick) / 3 (thorough), entries scalar | {a} | {a,b}; every equality pattern among the entries is solver-decided"},
		},
		Assume:  toolAssume,
		Outside: "deeper trees, longer lists; file formats and the I/O glue of cmd/bkld/main.go (diffDoc is called directly; base and target are $-free so Document.Process is the identity); pairs inside the known-finding regions C15-R1..R4 (their witnesses are replayed natively on every run)",
	})
	reg(propSpec{
		ID: "C16",
		Harnesses: []harnessSpec{
			{Pkg: "bkli", Func: "HarnessC16_self", Tiers: "qt", Covers: []string{"c16.checked"},
				Bound: "intersect(x,x)=x for maps of depth<=3, keys {a,b}, lists<=2"},
			{Pkg: "bkli", Func: "HarnessC16_pair", Tiers: "qt", Covers: []string{"c16.checked", "c16.roundtrip"},
				Bound: "two inputs; quick: {a: scalar|flat map|list<=1, b: scalar?}; thorough: maps of depth<=2, lists<=1; result vs functional model, commonality, maximality, argument order, and bkld+bkl round trip per input"},
			{Pkg: "bkli", Func: "HarnessC16_three", Tiers: "qt", Covers: []string{"c16.checked", "c16.roundtrip"},
				Bound: "three flat inputs over keys {a,b}, folded as cmd/bkli main does"},
		},
		Assume:  toolAssume,
		Outside: "four inputs; deeper trees; file formats and main.go glue (the fold of main is reproduced in the harness; cmd/bkld/diff.go is overlaid verbatim into package main of cmd/bkli for the round trip); known-finding regions C16-R1, C16-R3 and, for the round trip, C15-R1..R4",
	})
	reg(propSpec{
		ID: "C17",
		Harnesses: []harnessSpec{
			{Pkg: "bklr", Func: "HarnessC17_required", Tiers: "qt", Covers: []string{"req.empty", "req.nonempty"},
				Bound: "one document, maps over {a,b} of depth<=2 (quick) / 3 (thorough), lists<=2; leaves: $required, any scalar, or one 9-byte string that the solver may make equal to the marker ($-free otherwise)"},
			{Pkg: "bklr", Func: "HarnessC17_layers", Tiers: "qt", Covers: []string{"req.empty", "req.nonempty", "layers.overridden"},
				Bound: "two layers through Parser.MergeDocument: base depth<=2 with markers, upper layer overriding any subset of marker leaves / appending to lists"},
		},
		Assume:  toolAssume,
		Outside: "markers as map keys; three layers; main.go glue",
	})
}
