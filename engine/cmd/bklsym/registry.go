package main

var registry = map[string]propSpec{}

func reg(p propSpec) { registry[p.ID] = p }

var stdAssume = []string{
	"go/packages + go/ssa IR is faithful to the compiler; bklsym's Go semantics (validated per run by native replay of sampled paths)",
	"z3 4.8.12 answers are correct (models are re-evaluated by bklsym's own term evaluator before use)",
	"fmt.Errorf: error value wrapping its %w operands, text opaque when operands are symbolic",
	"yaml.Marshal∘yaml.Unmarshal in deepClone: structural copy with int64→int, integral float64 (|x|<1e6)→int, `<<` key = YAML merge key (concrete sub-trees go through the real yaml.v3)",
	"map iteration in insertion order except in order-mode harnesses (C09), where every order is explored",
}

func init() {
	reg(propSpec{
		ID: "C01",
		Harnesses: []harnessSpec{
			{Pkg: "bkl", Func: "HarnessC01_match", Tiers: "qt", Covers: []string{"match.true", "match.false"},
				Bound: "match(obj,pat): objects depth<=2, keys {a,b}, lists<=2, symbolic-kind scalar leaves; patterns depth<=1 (quick) / 2 (thorough), optional $invert:true, lists<=2"},
			{Pkg: "bkl", Func: "HarnessC01_kinds", Tiers: "qt", Covers: []string{"merge.accepted", "merge.rejected"},
				Bound: "merge+validate vs specMerge on the kind matrix {nil,scalar,{},{a:s},[],[s]}^2"},
			{Pkg: "bkl", Func: "HarnessC01_mapmap", Tiers: "qt", Covers: []string{"merge.accepted", "merge.rejected"},
				Bound: "map over map, keys {a,b}; quick: parent scalar values (incl. nil, $required), child values scalar/$delete + $replace:true/false and misplaced $match key; thorough: parent of depth<=2 (maps in maps) under the same child family"},
			{Pkg: "bkl", Func: "HarnessC01_spine", Tiers: "t", Covers: []string{"merge.accepted", "merge.rejected"},
				Bound: "3-level spine a.b.{a,b} with the depth-1 map family at the bottom"},
			{Pkg: "bkl", Func: "HarnessC01_listlist", Tiers: "qt", Covers: []string{"merge.accepted", "merge.rejected"},
				Bound: "list over list: parent<=2 entries of {scalar,$required,{a},{a,b}}; child<=1 (quick) / <=2 (thorough) entries from all 12 forms (scalar, bare \"$required\", \"$replace\", {$replace:true}[+extra key], {$delete:p}[+extra], {$match:p,..}, {$match:p,$value:v}[+extra], plain map, bare \"$delete\"); patterns scalar/{}/{a}/{a,$invert}/[s]"},
			{Pkg: "bkl", Func: "HarnessC01_listpair", Tiers: "qt", Covers: []string{"merge.accepted", "merge.rejected"},
				Bound: "two editing list entries in sequence; quick: two $match entries over exactly two parent entries; thorough: pairs from {scalar,$delete,$match,$match+$value} over parent<=2"},
		},
		Assume:  stdAssume,
		Outside: "deeper/wider trees and longer lists; chains of 3-4 layers (a chain step is a merge whose parent is an arbitrary tree of the bound; multi-layer histories are exercised under C02); null anywhere in the child, NaN, $invert with a non-true value (documentation silent: excluded, neither pinned nor forbidden); string leaves other than plain tokens s0..s3 and the directive strings placed by the generators (string contents: C06/C07)",
	})

	toolAssume := append([]string{
		"reflect.DeepEqual: structural model (nil and empty containers differ), leaf comparisons as formulas",
		"bkl.New: os.OpenRoot(\"/\") returns an opaque root handle; os.Environ is empty unless the harness sets it",
	}, stdAssume...)
	reg(propSpec{
		ID: "C15",
		Harnesses: []harnessSpec{
			{Pkg: "bkld", Func: "HarnessC15_kinds", Tiers: "qt", Covers: []string{"diff.same", "diff.changed"},
				Bound: "kind matrix {scalar,{},{a:s},[],[s]}^2 at one key next to an unchanged key"},
			{Pkg: "bkld", Func: "HarnessC15_maps", Tiers: "qt", Covers: []string{"diff.same", "diff.changed"},
				Bound: "quick: {a: scalar|flat map|[], b: scalar?} on both sides; thorough: all pairs of maps of depth<=2 over keys {a,b}"},
			{Pkg: "bkld", Func: "HarnessC15_lists", Tiers: "qt", Covers: []string{"diff.same", "diff.changed"},
				Bound: "a list under one key on both sides, length<=2, entries scalar | {a} | {a,b}; thorough adds base<=2 / target<=3 with entries scalar | {a}; every equality pattern among the entries is solver-decided; string leaves include \"1\" and \"true\" (texts that print like an int / a bool)"},
			{Pkg: "bkld", Func: "HarnessC15_longlists", Tiers: "qt", Covers: []string{"diff.same", "diff.changed"},
				Bound: "lists of symbolic-kind scalars: base <=2 (thorough 3), target <=4 entries; every equality pattern among the entries (kept, dropped, repeated, reordered, appended, duplicates of base entries)"},
		},
		Assume:  toolAssume,
		Outside: "deeper trees, longer lists; file formats and the I/O glue of cmd/bkld/main.go (diffDoc is called directly; base and target are $-free so Document.Process is the identity)",
	})
	reg(propSpec{
		ID: "C16",
		Harnesses: []harnessSpec{
			{Pkg: "bkli", Func: "HarnessC16_self", Tiers: "qt", Covers: []string{"c16.checked"},
				Bound: "intersect(x,x)=x for maps of depth<=3, keys {a,b}, lists<=2"},
			{Pkg: "bkli", Func: "HarnessC16_pair", Tiers: "qt", Covers: []string{"c16.checked", "c16.roundtrip"},
				Bound: "two inputs; quick: {a: scalar|flat map|list<=1, b: scalar?}; thorough: a map of depth<=2 (lists: [] only) against a flat map, both argument orders; result vs functional model, commonality, maximality, argument order, and bkld+bkl round trip per input"},
			{Pkg: "bkli", Func: "HarnessC16_lists", Tiers: "qt", Covers: []string{"c16.checked", "c16.roundtrip"},
				Bound: "two inputs {l: list of <=2 (thorough 3) symbolic-kind scalars, k}: every pattern of shared, repeated and reordered entries; model, commonality, maximality, bkld round trip per input (argument-order assertion withheld only inside region C16-R3)"},
			{Pkg: "bkli", Func: "HarnessC16_three", Tiers: "qt", Covers: []string{"c16.checked", "c16.roundtrip"},
				Bound: "three flat inputs over keys {a,b}, folded as cmd/bkli main does"},
		},
		Assume:  toolAssume,
		Outside: "four inputs; deeper trees; file formats and main.go glue (the fold of main is reproduced in the harness; cmd/bkld/diff.go is overlaid verbatim into package main of cmd/bkli for the round trip); known-finding region C16-R3 (lists whose shared entries are ordered differently)",
	})
	reg(propSpec{
		ID: "C17",
		Harnesses: []harnessSpec{
			{Pkg: "bklr", Func: "HarnessC17_required", Tiers: "qt", Covers: []string{"req.empty", "req.nonempty"},
				Bound: "one document, maps over {a,b} of depth<=2 with lists<=2 (quick) / depth<=3 with lists<=1 (thorough); leaves: $required, any scalar (thorough: 7), or one 9-byte string that the solver may make equal to the marker ($-free otherwise)"},
			{Pkg: "bklr", Func: "HarnessC17_reread", Tiers: "qt", Samples: 24, Covers: []string{"reread.checked"},
				Bound: "bklr's output for 60 concrete small trees (markers at a value, a nested value, a list entry, or nowhere) written as yaml/json/json-pretty/toml and read back by the same codec: exactly one document, on which bklr changes nothing (the empty output included); codecs are the native boundary"},
			{Pkg: "bklr", Func: "HarnessC17_listmarkers", Tiers: "qt", Covers: []string{"listmarkers.checked"},
				Bound: "a lower-layer list of 1-3 entries, any subset of them markers, at the top or nested, with an upper layer supplying a list there: the layered document is the base's other entries + the upper's, bklr reports nothing, bkl accepts"},
			{Pkg: "bklr", Func: "HarnessC17_nested", Tiers: "qt", Covers: []string{"req.empty", "req.nonempty"},
				Bound: "a chain of four nested containers, each a map or a list (lists directly inside lists included), marker or plain leaves beside the chain and at its end"},
			{Pkg: "bklr", Func: "HarnessC17_layers", Tiers: "qt", Covers: []string{"req.empty", "req.nonempty", "layers.overridden"},
				Bound: "two layers through Parser.MergeDocument: base depth<=2 with markers, upper layer overriding any subset of marker leaves / appending to lists"},
		},
		Assume:  toolAssume,
		Outside: "markers as map keys; three layers; main.go glue",
	})

	pipeAssume := append([]string{
		"bkl.New: os.OpenRoot(\"/\") returns an opaque root handle; os.Environ/os.Getenv are the harness-set environment (empty by default)",
		"strings.* primitives, utf8string.At/RuneCount, unicode.IsLower (table generated from the real unicode package for runes < U+0800), regexp {.*?} replacement: exact models over byte-array strings of path-concrete length",
		"fmt.Sprintf: exact for concrete operands (real fmt); for symbolic operands %s/%v of strings, small ints, bools, nil, maps and lists are modelled, %v of a symbolic float64 ends the path as outside the claim",
		"yaml.Unmarshal of a reference path: real library for concrete text; a symbolic text is covered only when it is certainly a plain YAML string (letter followed by letters/digits/_/./-, not a YAML keyword), otherwise the path ends as outside the claim",
		"bkl's json/yaml/toml stream codec wrappers are a native boundary (real functions of the linked /repo build on concrete data)",
	}, stdAssume...)
	reg(propSpec{
		ID: "C06",
		Harnesses: []harnessSpec{
			{Pkg: "bkl", Func: "HarnessC06_identity", Tiers: "qt", Covers: []string{"identity.checked"},
				Bound: "document {K1:V1, m:{K3:V3, x:leaf}, l:[V4, leaf]}: one of the five string positions is every printable-ASCII byte string of length <= 6 (quick) / 8 (thorough) satisfying plain(); a second position takes each of 14 plain look-alikes ($FOO, ${X}, $(cmd), $, $A, $\"x, ...); leaves nil/7 (quick) or symbolic-kind scalars incl. nil (thorough)"},
			{Pkg: "bkl", Func: "HarnessC06_escape", Tiers: "qt", Covers: []string{"escape.single", "escape.layered"},
				Bound: "same skeleton (strings also repeated below a list-in-list), the symbolic string unconstrained (<= 6 bytes; thorough <= 7 with the second position free); second position from 31 tokens incl. every directive name; $ doubled in keys and values; evaluated alone and as the child of a layer"},
			{Pkg: "bkl", Func: "HarnessC06_unicode", Tiers: "qt", Covers: []string{"unicode.checked"},
				Bound: "\"$\" + one of É € 日 😀 → × (2-, 3-, 4-byte UTF-8, none a lower-case letter) + every printable tail of <= 2 bytes, as value, key and list entry, plain and $-doubled"},
			{Pkg: "bkl", Func: "HarnessC06_keys", Tiers: "qt", Covers: []string{"keys.checked"},
				Bound: "two sibling keys symbolic at once over the alphabet {$,a,x}, length <= 3 (quick) / 4 (thorough), assumed different"},
		},
		Assume:  pipeAssume,
		Outside: "strings longer than N; non-ASCII bytes in the symbolic string (the two-byte UTF-8 clause of the reserved-word check is covered under C07_latin1); three or more simultaneously arbitrary strings; deeper trees",
	})
	reg(propSpec{
		ID: "C07",
		Harnesses: []harnessSpec{
			{Pkg: "bkl", Func: "HarnessC07_clean", Tiers: "qt", Covers: []string{"clean.accepted", "clean.rejected", "clean.layered"},
				Bound: "C06 skeleton with any $$-free printable string of length <= 6 (quick) / 8 (thorough) at any key/value position and one of 25 directive names/shapes at a second position; one layer or on top of a layer holding $required markers; assertion: a successful evaluation emits no key or string equal to $required or shaped $+lower-case"},
			{Pkg: "bkl", Func: "HarnessC07_required", Tiers: "qt", Covers: []string{"required.met", "required.unmet"},
				Bound: "lower layer with $required at any subset of {map value, nested map value, list entry}; upper layer overriding any subset, mentioning the map without the marker, or appending a marker of its own to the list"},
			{Pkg: "bkl", Func: "HarnessC07_hidden", Tiers: "qt", Covers: []string{"hidden.checked"},
				Bound: "an unknown directive-shaped string (every such printable string <= 6 / 9 bytes) as value, key or list entry (next to $required) under $output: false"},
			{Pkg: "bkl", Func: "HarnessC07_viaref", Tiers: "qt", Covers: []string{"viaref.checked"},
				Bound: "a marker ($required, $delete, $bogus, $match) inside a hidden ($output: false) subtree, obtained by a visible value or key through a one-reference interpolation, a $merge:/$replace: string, a $replace map or an interpolated list entry: evaluation must fail; the marker's plain sibling comes through (control)"},
			{Pkg: "bkl", Func: "HarnessC07_outputs", Tiers: "qt", Covers: []string{"outputs.accepted", "outputs.rejected"},
				Bound: "the C06 skeleton (any $$-free printable string <= 3 / 5 bytes at one position, one of 25 directive names/shapes at a second) as an emitted subtree in 5 selection shapes: explicit $output:true map, the same below a hidden root, below a hidden inner map, a list selected by a marker entry below a hidden root, nested selections; every emitted document marker-free, a bare $required in it always an error"},
			{Pkg: "bkl", Func: "HarnessC07_soup", Tiers: "qt", Covers: []string{"soup.output", "soup.error"},
				Bound: "the C08 directive soup (13 directive keys x 9 argument kinds x 7 positions, alone or as upper of two layers; thorough: plus a second directive map {$merge|$replace|$encode|$output|$repeat: a | $\"{a}\" | json | true | 2} in the same document): whenever evaluation succeeds every emitted document is marker-free"},
			{Pkg: "bkl", Func: "HarnessC07_latin1", Tiers: "qt", Covers: []string{"latin1.lower", "latin1.other"},
				Bound: "\"$\" followed by EVERY two-byte UTF-8 sequence C2/C3 xx (Latin-1 supplement), optionally one more byte, as value, key and list entry: rejected iff the rune is a lower-case letter, passed through unchanged otherwise"},
			{Pkg: "bkl", Func: "HarnessC07_encode", Tiers: "qt", Covers: []string{"encode.checked"},
				Bound: "the same strings inside an $encode: json subtree: evaluation must fail"},
		},
		Assume:  pipeAssume,
		Outside: "YAML anchors (parser); strings longer than N; paths on which a symbolic string reaches the YAML reference-path parser and is not certainly a plain string (counted as 'outside' in the evidence)",
	})
	reg(propSpec{
		ID: "C08",
		Harnesses: []harnessSpec{
			{Pkg: "bkl", Func: "HarnessC08_fuzz", Tiers: "qt", Covers: []string{"fuzz.error", "fuzz.output", "fuzz.layered"},
				Bound: "each of 13 directive keys with an argument of arbitrary kind (symbolic-kind scalar with ints in [-2,5], 16 directive/path strings, [], {}, [s], [str], {a:s}, [{a:1},x], {$match:{},$path:a}) at 7 positions (root, nested map, nested with siblings, list entry, list entry with sibling, two levels down, host under its own key), alone and as the upper of two layers; engine-enforced: no reachable panic, every path within 5e6 instructions and 20000 frames"},
			{Pkg: "bkl", Func: "HarnessC08_strings", Tiers: "qt", Covers: []string{"fuzz.error", "fuzz.output"},
				Bound: "16 directive-shaped strings as value, list entry, key, nested key and $value argument, next to a second such string"},
			{Pkg: "bkl", Func: "HarnessC08_selfref", Tiers: "qt", Samples: 12, Covers: []string{"selfref.checked"},
				Bound: "a map or list that names itself as the subtree to merge in / be replaced by - directly, through a second node, through the enclosing node, list form, two lists merging each other, a list entry merging its list - next to a list (so that an in-place expansion doubles it): reported as an error within the instruction and allocation budgets"},
			{Pkg: "bkl", Func: "HarnessC08_yamlalias", Tiers: "qt", Samples: 5, Covers: []string{"yamlalias.checked"},
				Bound: "YAML texts whose anchored node contains an alias to itself (4 shapes) are refused with an error, repeated non-cyclic aliases are accepted; the YAML decoder is the engine's native boundary: decided by the native replay of all 5 paths (a crash of the replay is the violation)"},
			{Pkg: "bkl", Func: "HarnessC08_interp", Tiers: "qt", Covers: []string{"interp.cyclic", "interp.acyclic"},
				Bound: "two interpolation strings a, b with 1-3 references each to a, b or a plain leaf, in every combination: every cycle reported as an error, every evaluation within the instruction budget; acyclic ones accepted"},
			{Pkg: "bkl", Func: "HarnessC03_cycle", Tiers: "qt", Covers: []string{"cycle.checked"},
				Bound: "$parent cycles of length 1, 2 and 3 between files of a virtual file system: must end in an error (no hang, no memory blow-up)"},
			{Pkg: "bkl", Func: "HarnessC08_refs", Tiers: "qt", Covers: []string{"refs.cyclic", "refs.acyclic"},
				Bound: "all reference graphs over three nodes (13^3 documents): each node a leaf or one reference ($merge key, $replace key, $merge: string, interpolation) to any node; every cycle outside region C08-K2c (interpolation mixed with another reference form) must be reported as an error"},
		},
		Assume:  pipeAssume,
		Outside: "byte-level robustness of the JSON/TOML/YAML parsers; the CLI fatal()/exit path; $parent cycles between files (see C03); legitimately large outputs ($repeat counts > 5); known finding C08-K2c (cycles mixing interpolation with other reference forms)",
	})
	reg(propSpec{
		ID: "C11",
		Harnesses: []harnessSpec{
			{Pkg: "bkl", Func: "HarnessC11_dupmarkers", Tiers: "qt", Covers: []string{"dupmarkers.checked"},
				Bound: "a list carrying its $output marker entry 2-3 times (front, middle, back) around two entries of depth <= 1, in a plain or a hidden parent: same outputs as with the marker once, no marker in any output"},
			{Pkg: "bkl", Func: "HarnessC11_output", Tiers: "qt", Covers: []string{"out.one", "out.multi", "out.none"},
				Bound: "one document of depth <= 2 (thorough: a root map, marked true/false/not, over a depth-2 and a depth-1 subtree): maps over {a,b} with $output true/false/absent, lists <= 2 with a marker entry true/false/absent at front or back; distinct concrete leaves"},
			{Pkg: "bkl", Func: "HarnessC11_stream", Tiers: "qt", Covers: []string{"out.one", "out.multi", "out.none"},
				Bound: "two documents (depth <= 2 and <= 1), whole documents may be hidden"},
			{Pkg: "bkl", Func: "HarnessC11_spine", Tiers: "qt", Covers: []string{"out.one", "out.multi", "out.none"},
				Bound: "a chain of four nested containers, each a map or a list with marker true/false/none and a sibling leaf (6^4 shapes): nested selections inside hidden subtrees and vice versa"},
			{Pkg: "bkl", Func: "HarnessC11_symleaf", Tiers: "qt", Covers: []string{"out.one", "out.multi"},
				Bound: "symbolic-kind scalar leaves: two documents of depth <= 1 (quick); one document of depth <= 2 (thorough)"},
		},
		Assume:  pipeAssume,
		Outside: "depth > 3; non-boolean marker values; list entries that are exactly {$output: b} (by construction a list marker, not a marked empty map)",
	})

	reg(propSpec{
		ID: "C04",
		Harnesses: []harnessSpec{
			{Pkg: "bkl", Func: "HarnessC04_ints", Tiers: "qt", Covers: []string{"int.json", "int.yaml", "int.toml"},
				Bound: "EVERY int64 n (one BV64 solver variable) through the JSON (json.Number), YAML (yaml.Node !!int) and TOML (int64) delivery contracts: normalize/yamlTranslateNode must yield Go int with value n"},
			{Pkg: "bkl", Func: "HarnessC04_floats", Tiers: "qt", Covers: []string{"float.json", "float.yaml", "float.toml"},
				Bound: "EVERY finite double x (one FP64 solver variable) through the three routes: must yield float64 equal to x"},
			{Pkg: "bkl", Func: "HarnessC04_compare", Tiers: "qt", Covers: []string{"compare.checked"},
				Bound: "all 9 format pairs for one symbolic integer: match(), useless-override detection in merge() and the $repeat count check (n in [0,2]) agree"},
			{Pkg: "bkl", Func: "HarnessC04_structure", Tiers: "qt", Covers: []string{"structure.checked"},
				Bound: "one document with numbers at the top level, inside a list, inside a map inside a list and inside an array of tables, delivered as JSON (json.Number), TOML (int64/float64, []map[string]any) and YAML (node tree): all 9 format pairs canonicalise to the same tree with Go int / float64 leaves, for every two int64 and every finite double"},
			{Pkg: "bkl", Func: "HarnessC04_streams", Tiers: "qt", Samples: 24, Covers: []string{"streams.checked"},
				Bound: "streams of 1-3 concrete documents from 6 shapes (empty map, nested lists/maps, empty containers, floats, negative ints, list of tables) through each of the 5 stream codecs (encode, decode, normalize): same stream back, same count; the codecs are the engine's native boundary (real functions on concrete data)"},
			{Pkg: "bkl", Func: "HarnessC04_mergevalues", Tiers: "qt", Covers: []string{"mergevalues.checked"},
				Bound: "<<: [*m1, *m2] where the merged maps hold, under shared keys {a,b}, a distinct scalar, the SAME scalar, a map or a list, with an optional local key: equals the expanded mapping (whole values copied, earlier entry wins, local wins; no deep merge, no concatenation, no rejection)"},
			{Pkg: "bkl", Func: "HarnessC04_mergekeys", Tiers: "qt", Covers: []string{"mergekey.single", "mergekey.list"},
				Bound: "YAML mapping nodes with << (alias to a map / list of two aliases), keys {a,b,c}, local keys before or after the merge key: equals the expanded mapping"},
		},
		Assume: append([]string{
			"decoder delivery contracts: JSON numbers arrive as json.Number(text), YAML scalars as yaml.Node{Tag,Value:text}, TOML numbers as int64/float64; text is an abstract numeric literal",
			"strconv.ParseInt/ParseFloat and json.Number.Int64/Float64 on a numeric literal follow their documented contract (range check per bitSize; round-to-nearest-even to float32 for bitSize 32; an integer parser rejects a float literal)",
			"(*yaml.Node).ShortTag returns the explicit tag (tag resolution from the text is the parser's job)",
			"Go int is 64 bits",
		}, stdAssume...),
		Outside: "the three parsers themselves (that the same logical content in three syntaxes is delivered as stated); YAML hex/octal/underscore integer spellings; TOML dates; strings and containers (structure-preserving code paths are exercised by every other property)",
	})
	reg(propSpec{
		ID: "C10",
		Harnesses: []harnessSpec{
			{Pkg: "bkl", Func: "HarnessC10_inline", Tiers: "qt", Covers: []string{"form.mapmerge", "form.replace", "form.listmerge", "inline.accepted", "inline.mergefails"},
				Bound: "document {<k>:{x:T,\"p.q\":T2}, h:HOST, o:1} where <k> is EVERY lower-case letter (a symbolic byte); T any tree of depth<=1 (quick) / 2 (thorough); 9 reference spellings (map $merge with dotted / list path / list path through a dotted key, map $replace, $merge: and $replace: strings, list-entry $merge / $replace, YAML flow-list path); local content any subset of {a,b}; compared with the hand-inlined twin through the same pipeline; the target's own output unchanged"},
			{Pkg: "bkl", Func: "HarnessC10_cross", Tiers: "qt", Covers: []string{"cross.unique", "cross.ambiguous"},
				Bound: "streams of 2-3 documents with ids; $merge/$replace in {$match,$path} form with a dotted-string or list $path and in [pattern, path...] form, target two levels down next to a literal key \"t.u\"; zero, one or two matching documents"},
			{Pkg: "bkl", Func: "HarnessC10_chain", Tiers: "qt", Covers: []string{"chain.checked"},
				Bound: "chains top -> mid -> base with mid a placeholder-only {$merge: base} or with own content; the outer link a $merge (with or without local content), a $replace, a $merge: string, or a path THROUGH mid (string and list form); outer key sorting after or before mid; all equal the hand-inlined document (paths through a not-yet-evaluated mid: known finding C10-K1)"},
			{Pkg: "bkl", Func: "HarnessC10_listref", Tiers: "qt", Covers: []string{"listref.checked"},
				Bound: "a list holding a list-form reference of its own, referred to (list-form $merge, map-form $replace) from a key that is evaluated before it: the referenced list comes out as when evaluated alone"},
			{Pkg: "bkl", Func: "HarnessC10_dangling", Tiers: "qt", Covers: []string{"dangling.checked"},
				Bound: "6 dangling paths x 4 host forms"},
		},
		Assume:  pipeAssume,
		Outside: "symbolic path strings; chains of references and references into $output:false templates (exercised concretely under C08_refs and C19); more than 3 documents",
	})
	reg(propSpec{
		ID: "C12",
		Harnesses: []harnessSpec{
			{Pkg: "bkl", Func: "HarnessC12_doc", Tiers: "qt", Covers: []string{"repeat.zero", "repeat.some", "repeat.listdoc", "repeat.override"},
				Bound: "document-level $repeat: n with n a symbolic int in [-1,5] (thorough [-1,12]) (the loop bound is solver-decided), map and list documents, count supplied by an upper layer; body uses $repeat as value, in an interpolation and in a key"},
			{Pkg: "bkl", Func: "HarnessC12_nested", Tiers: "qt", Covers: []string{"nested.list", "nested.map"},
				Bound: "$repeat: n (n in [-1,4], thorough [-1,10]) inside a list entry and inside a map entry with an interpolated key or a plain key (the last copy stays; no copy, no key)"},
			{Pkg: "bkl", Func: "HarnessC12_named", Tiers: "qt", Covers: []string{"named.checked"},
				Bound: "named counts x,y each in [-1,2] (quick) / [-1,4] plus optional third name (thorough): product, order, bindings"},
			{Pkg: "bkl", Func: "HarnessC12_scopes", Tiers: "qt", Covers: []string{"scopes.doc", "scopes.list", "scopes.map"},
				Bound: "a repeat (n in [-1,2], thorough [-1,4]) at document, list-entry or map-entry level around an inner list-entry or map-entry repeat (m in [-1,2], thorough [-1,3]); the outer index is used in a key evaluated before and one evaluated after the inner repeat"},
			{Pkg: "bkl", Func: "HarnessC12_badcount", Tiers: "qt", Covers: []string{"badcount.checked"},
				Bound: "any non-integer scalar as count at document, list-entry and map-entry level, and as one of two or three named counts next to good counts of any value (0 included)"},
		},
		Assume:  pipeAssume,
		Outside: "counts > 5; more than 3 names; null counts (dropped like any null entry)",
	})
	reg(propSpec{
		ID: "C13",
		Harnesses: []harnessSpec{
			{Pkg: "bkl", Func: "HarnessC13_interp", Tiers: "qt", Covers: []string{"interp.checked"},
				Bound: "templates of 1-4 segments: literals of <= 2 (quick) / 3 (thorough) printable bytes without $ and { (closing braces, colons, quotes allowed), references to a scalar path (bool, int in [-9,9], token, symbolic string), to $env:FOO (every printable value of <= 2/3 bytes) and to a nested path"},
			{Pkg: "bkl", Func: "HarnessC13_env", Tiers: "qt", Covers: []string{"env.checked", "env.key"},
				Bound: "$env:NAME as whole value and as key; FOO every printable string of <= 4 (quick) / 6 (thorough) bytes outside region C13-K1; values that look like a bool and a number stay strings"},
			{Pkg: "bkl", Func: "HarnessC13_repeatvar", Tiers: "qt", Covers: []string{"repeatvar.doc", "repeatvar.named", "repeatvar.map", "repeatvar.outofscope"},
				Bound: "{$repeat} / {$repeat:x} in interpolated values and keys under a document-level repeat (count 1-3), named counts, a map-entry repeat, each around a nested list repeat (1-2 copies) evaluated before the reference; and with no enclosing repeat (error), also after a sibling list repeat"},
			{Pkg: "bkl", Func: "HarnessC13_missing", Tiers: "qt", Covers: []string{"missing.checked", "missing.multi"},
				Bound: "missing path / unset variable in interpolation, as value and as key; templates of 2-3 references each resolving or missing (path, nested path, $env), a missing one at any position"},
		},
		Assume:  pipeAssume,
		Outside: "float formatting (%v of a symbolic double); literal segments containing {; known finding C13-K1 (environment values or results containing $$ or shaped like a directive)",
	})
	reg(propSpec{
		ID: "C14",
		Harnesses: []harnessSpec{
			{Pkg: "bkl", Func: "HarnessC14_transforms", Tiers: "qt", Covers: []string{"transform.valid", "transform.invalid"},
				Bound: "stacks of 1-2 (quick) / 1-3 (thorough) of {join:, join, prefix:p-, flatten, tolist:=, tolist::, values, flags} on lists (<=2), maps ({a,b} with scalar or list values), list of list, list of maps; elements: symbolic strings (<=2 bytes), 7, symbolic bool, empty string; result vs reference semantics, invalid operand kinds rejected"},
			{Pkg: "bkl", Func: "HarnessC14_args", Tiers: "qt", Covers: []string{"transform.valid", "transform.invalid"},
				Bound: "one of join:/prefix:/tolist: with ANY argument of 0-2 bytes over {',','-','=','p','.',' '} (the empty argument included), given as string or one-element list, on a list, a map, a scalar, a list of maps, []; result vs reference semantics, invalid operand kinds rejected"},
			{Pkg: "bkl", Func: "HarnessC14_base64", Tiers: "qt", Covers: []string{"base64.checked"},
				Bound: "$encode: base64 of EVERY $-free byte string of <= 6 (quick) / 8 (thorough) bytes equals an independent RFC 4648 encoder (bit-level formula over symbolic bytes)"},
			{Pkg: "bkl", Func: "HarnessC14_codecs", Tiers: "qt", Covers: []string{"codec.sha256", "codec.base64", "codec.roundtrip"},
				Bound: "8 concrete values: sha256 and base64 against crypto/sha256 and encoding/base64; $decode(f, $encode(f, v)) = v for json, yaml, toml"},
			{Pkg: "bkl", Func: "HarnessC14_badargs", Tiers: "qt", Covers: []string{"badargs.checked"},
				Bound: "13 malformed $encode arguments, 4 malformed $decode uses"},
		},
		Assume: append([]string{
			"encoding/base64: real encoder on concrete bytes, exact RFC 4648 bit-level model on symbolic bytes for Std/URL/RawStd/RawURL; crypto/sha256 and encoding/hex: real functions on concrete bytes only",
			"sort.Strings: insertion sort with solver-decided comparisons",
		}, pipeAssume...),
		Outside: "the bytes produced by the json/yaml/toml libraries (codec boundary; only the round trip through $decode is checked, on concrete values); sha256 of symbolic data",
	})

	reg(propSpec{
		ID: "C02",
		Harnesses: []harnessSpec{
			{Pkg: "bkl", Func: "HarnessC02_stream", Tiers: "qt", Covers: []string{"stream.layered", "stream.multi", "stream.rejected"},
				Bound: "base stream of 1-2 documents (a: any scalar | map | list [p,q]; thorough: 1-3 documents, a may be absent), a further layer of 1-2 documents (thorough, 3 base documents: 1) and an optional probing layer of 1 document (full menu in thorough when the layer before has one document); quick also 3 base documents x 2 layers x 1-2 documents with reduced menus; layer documents override/add scalars, maps (also the empty map) and lists of maps and carry no $match, $match: null | {} | {a: s} | {a: s, $invert: true} | {a: {x: 1}} | {a: {x: 1, $invert: true}} | {a: [p, q]} | {a: [q, z]} (list patterns: all entries must be found), or $replace: true; pattern hits decided by the reference matcher; parent links as file.setParents sets them; after every MergeDocument: count, order and content equal the functional stream model (private copies), and no two documents share a map or list"},
		},
		Assume:  pipeAssume,
		Outside: "4 base documents, 3 further layers, duplicate document IDs, file loading itself (C03)",
	})
	reg(propSpec{
		ID: "C09",
		Harnesses: []harnessSpec{
			{Pkg: "bkl", Func: "HarnessC09_retain", Tiers: "qt", Samples: 5, Covers: []string{"retain.checked"},
				Bound: "per output format {json, jsonl, json-pretty, yaml, toml}: bytes returned for one input keep their content while two further inputs are evaluated, the same input gives the same bytes; natively (replay of every path) additionally 8 goroutines x 40 evaluations. The codecs are a native boundary: this harness is decided by the native replay of all 5 paths, which checks the purity assumption the other harnesses rely on"},
			{Pkg: "bkl", Func: "HarnessC09_process", Tiers: "qt", Samples: 8, Covers: []string{"process.checked"},
				Bound: "two evaluations in one process (one engine path: package-level state persists) of a document using $env: between them the variable changes value, is replaced by another variable (same count), one is added, or nothing changes: each evaluation equals what a fresh process gives; sync.Mutex/Once/Pool are modelled single-threaded"},
			{Pkg: "bkl", Func: "HarnessC09_stream", Tiers: "qt", Samples: 12, Covers: []string{"stream.checked"},
				Bound: "a stream of three documents each taking its neighbour's interpolated value through a cross-document reference: same result under the three global iteration policies; the engine runs goroutines (if any) to completion where they start - the native replay repeats the evaluation 300 times with real scheduling"},
			{Pkg: "bkl", Func: "HarnessC09_soup", Tiers: "qt", Covers: []string{"soup.output", "soup.error"},
				Bound: "the C08 directive soup (13 directive keys x 9 argument kinds x 7 positions, alone or as upper of two layers; thorough: plus a second directive map {$merge|$replace|$encode|$output|$repeat: a | $\"{a}\" | json | true | 2} in the same document): result under three global iteration policies applied to every range at once (reversed, rotated left, rotated right) equals the insertion-order result"},
			{Pkg: "bkl", Func: "HarnessC09_order", Tiers: "qt", Order: true, Covers: []string{"order.output", "order.error"},
				Bound: "9 input families (3-key maps with nulls, 4 $output selections, 3 named $repeat counts, flags/values transforms, layering with $delete and additions, $merge with overlapping keys, interpolated/$env keys of which two collide after evaluation, several $required, a $merge whose target lies inside its own host); leaves symbolic-kind scalars; one (quick) / two (thorough) `range`-over-map instances per evaluation leave insertion order, over all permutations and with inserted keys visited or not; every path compared with a canonical reference run"},
		},
		Assume: append([]string{
			"map iteration: any order is possible at each range; exploration is budgeted to 1 (quick) / 2 (thorough) permuted range instances per evaluation - which instances is itself explored",
			"stores to package-level variables after init are recorded in the evidence (none on the unchanged tree): the basis for independence from concurrent evaluations",
		}, pipeAssume...),
		Outside: "goroutine interleavings and the race detector, separate processes, the encoders' own determinism, evaluations in which three or more ranges must deviate together; which error is returned",
	})
	reg(propSpec{
		ID: "C19",
		Harnesses: []harnessSpec{
			{Pkg: "bkl", Func: "HarnessC19_soup", Tiers: "qt", Covers: []string{"soup.output", "soup.error"},
				Bound: "the C08 directive soup (13 directive keys x 9 argument kinds x 7 positions, alone or as upper of two layers; thorough: plus a second directive map {$merge|$replace|$encode|$output|$repeat: a | $\"{a}\" | json | true | 2} in the same document): two successive outputs agree and the stored documents are unchanged by them"},
			{Pkg: "bkl", Func: "HarnessC19_history", Tiers: "qt", Covers: []string{"history.repeat", "history.merge", "history.documents", "history.withoutput"},
				Bound: "1-2 documents from 13 families (a list-rooted document with a cross-document $merge next to other keys, two entries of one map evaluating to the same key (interpolated key vs literal; repeated map entry vs literal), $merge, $replace + $merge: string, document $repeat, $encode, $output true/false + list $repeat, interpolation + null, plain, forward cross-document $replace, its target holding a nested $merge, $merge maps inside a list-valued key), then 3 (quick) / 4 (thorough) calls each chosen from {OutputDocuments, MergeDocument(next layer: add key | change value | change what a nested $merge resolves to | $match: null append), Documents}; a twin parser receives the same merges and is never asked for output; successive outputs run under different global iteration policies of the evaluator's map ranges (insertion, reversed, rotated); leaves symbolic when there is one document"},
		},
		Assume:  pipeAssume,
		Outside: "format-specific Output/OutputToWriter/OutputToFile (they add only the codec to OutputDocuments); MergeFileLayers (C03); more than 4 calls",
	})

	vfsAssume := append([]string{
		"virtual file system: os.Stat, filepath.Glob (real filepath.Match per entry), filepath.EvalSymlinks, filepath.Abs/Rel answer from the tree the harness built; they are NOT confined to a root (as the real ones)",
		"os.Root contract: OpenRoot/Open(rel) fail when rel is absolute or, resolved component by component including symlink targets, leaves the root directory; io.ReadAll + Format.UnmarshalStream of an opened virtual file yield its logical documents",
		"os.Open / os.ReadFile are modelled as unconfined reads and recorded (bkl must not obtain content that way)",
	}, pipeAssume...)
	reg(propSpec{
		ID: "C03",
		Harnesses: []harnessSpec{
			{Pkg: "bkl", Func: "HarnessC03_chain", Tiers: "qt", Samples: 16, Covers: []string{"chain.accepted", "chain.rejected"},
				Bound: "chains a, a.b, a.b.c (thorough: a.b.c.d) - or names that are string-suffixes of one another with one extension (a, a.a, a.a.a; b, a.b, c.a.b) - with 1-3 (4) layers, each file under any supported extension (quick: two per file, rotating; thorough: all for chains up to 2, at depth 3 all for the name chain and two for the $parent-wired twin, two at depth 4), contents {v: any scalar, k_i: i}; the same contents as x, y, z wired by $parent; both equal the explicit base-first MergeDocument fold (outputs and error status)"},
			{Pkg: "bkl", Func: "HarnessC03_missing", Tiers: "qt", Covers: []string{"missing.checked"},
				Bound: "any one non-top layer of a 2-3 layer chain missing; a $parent naming no file"},
			{Pkg: "bkl", Func: "HarnessC03_parentforms", Tiers: "qt", Samples: 16, Covers: []string{"forms.none", "forms.list", "forms.wildcard", "forms.invalid"},
				Bound: "$parent false/null on a dotted file name, a list of two, a wildcard p.* with a deeper p.two.deep present, $parent: true, conflicting directives in one file"},
			{Pkg: "bkl", Func: "HarnessC03_multi", Tiers: "qt", Covers: []string{"multi.checked"},
				Bound: "two inputs applied left to right (sequential MergeFileLayers)"},
			{Pkg: "bkl", Func: "HarnessC03_skipparent", Tiers: "qt", Covers: []string{"skipparent.checked"},
				Bound: "MergeFile (what -P calls) on a file without / with $parent: name / with $parent: false"},
			{Pkg: "bkl", Func: "HarnessC03_symlink", Tiers: "qt", Covers: []string{"symlink.checked"},
				Bound: "a symlinked layer inherits from its target's name"},
		},
		Assume:  vfsAssume,
		Outside: "the real file system and kernel; go-flags parsing and the glue of cmd/bkl/main.go (the -P and multi-input clauses are checked at the library calls main makes); stdin; two files providing the same layer name",
	})
	reg(propSpec{
		ID: "C18",
		Harnesses: []harnessSpec{
			{Pkg: "bkl", Func: "HarnessC18_root", Tiers: "qt", Samples: 40, Covers: []string{"root.inside", "root.escape"},
				Bound: "root /w/root with a decoy layer outside it; 11 ways to reach for it ($parent with .., absolute $parent, input symlink, file-name parent symlink, directory symlink, chained symlinks, absolute symlink target, $parent list mixing inside and outside, wildcard $parent reaching out, a parent in a sub-directory referring up and out, and a control that stays inside) x 5 root spellings (relative, with ./.. segments, absolute, nested SetRoot calls, through a symlink to the root); three-fold self-composition: decoy content D1, content D2 (symbolic), decoy absent -> same status and output; every escape fails; no content obtained from outside the root"},
			{Pkg: "bkl", Func: "HarnessC18_nested", Tiers: "qt", Samples: 6, Covers: []string{"nested.widen", "nested.narrow"},
				Bound: "after SetRoot(root): a second SetRoot to the parent (., .., absolute), through directory symlinks leaving the root (root/up -> .., root/far -> ../elsewhere) must fail and leave the parser confined; narrowing to root/sub works and confines to it; decoy present/absent self-composition"},
		},
		Assume:  vfsAssume,
		Outside: "the real semantics of os.Root and the kernel (assumed by contract, cross-checked on the sampled paths by native replay against the real os.Root); races with concurrent file-system changes; the CLI flag",
	})
	reg(propSpec{
		ID: "C20",
		Harnesses: []harnessSpec{
			{Pkg: "wrapper", Func: "HarnessC20_args", Tiers: "qt", Samples: 16, Covers: []string{"wrap.passthrough", "wrap.replaced", "wrap.evalfails", "wrap.notfound"},
				Bound: "1-3 (quick) / 0-4 (thorough) arguments, each a flag, --opt=value, word, existing non-bkl file, existing layer file, virtual name with another supported extension, supported extension without a layer, a layer whose evaluation fails, or EVERY alphanumeric name of <= 2 bytes (optionally + .toml) that names no layer; wrapped program found on PATH or not; observed at syscall.Exec"},
			{Pkg: "bklb", Func: "HarnessC20_main", Tiers: "qt", Samples: 24, Covers: []string{"main.exec", "main.usage", "main.empty"},
				Bound: "cmd/bklb main started under EVERY name <tool> or <tool>b with tool of 0-3 bytes over {a,b,k,-,_,.} in 4 directory spellings: exactly one trailing b is removed and that program is run with the wrapper's arguments (a passed-through pair, or a layer file that gets replaced); a name not ending in b runs nothing and exits non-zero"},
		},
		Assume: append([]string{
			"os.Args, exec.LookPath, os.CreateTemp (fresh unique name), os.OpenFile/Write (virtual FS), syscall.Exec (observation point, ends the run), os.Exit are environment stubs; native replay runs the real wrapper in a child process with a recording stand-in on PATH",
		}, vfsAssume...),
		Outside: "the real exec, PATH search, temp-file naming and permissions; cmd/bklb's derivation of the program name from argv[0]",
	})
}
