module bklsym

go 1.26.8

require (
	github.com/gopatchy/bkl v0.0.0
	golang.org/x/tools v0.50.0
	gopkg.in/yaml.v3 v3.0.1
)

require (
	github.com/pelletier/go-toml/v2 v2.2.3 // indirect
	golang.org/x/exp v0.0.0-20250210185358-939b2ce775ac // indirect
	golang.org/x/mod v0.41.0 // indirect
	golang.org/x/sync v0.23.0 // indirect
)

replace github.com/gopatchy/bkl => /repo
